"""Contracts for the local backend (C03, C12, C13)."""
from __future__ import annotations

import z3

from vf import sym, models, ops, source
from vf.sym import SV, INT, BOOL, STR, BYTES, Opt, Tup, List, Ref, Cls
from vf.interp import Model, Raised, Exc, Obj, LoopSpec, PyRef, IterSpec
from vf.unit import Unit, Lemma
from vf.ops import CM, MethodModel, Property
from specs import shared
from specs.shared import UF

LOCAL_PY = 'replicat/backends/local.py'
PATH = models.opaque_type('LPath')
PATH.lenient = True
TMPF = models.opaque_type('NamedTemp')
STREAM = models.opaque_type('StreamArg')
FILE = models.opaque_type('LFile')


def path_join(a, b):
    return UF('path_join', PATH, STR, PATH)(a, b)


def _path_binop(interp, st, op, a, b):
    import ast
    if isinstance(op, ast.Div) and isinstance(a, SV) and a.ty == PATH:
        yield st, SV(PATH, path_join(a.z, sym.lift(b, STR).z))
    else:
        raise sym.Unsupported('path operator')


PATH.binop = _path_binop


def env(b):
    SELF = Obj('self', path=sym.const(PATH, 'repo_path'))
    SELF._class_source = (LOCAL_PY, 'Local')          # helpers extracted from the adapter's methods are the real methods, inlined
    b.bind('self', SELF)
    b.me = SELF
    b.sym('name', STR)

    def ev(kind, **kw):
        def fn(interp, st, args, kwargs):
            bad = st.copy()
            bad.emit(kind + '_failed', recv=args[0] if args else None)
            yield bad, Raised(Exc('OSError'))
            st.emit(kind, recv=args[0] if args else None, args=list(args[1:]), kwargs=dict(kwargs))
            yield st, None
        return fn

    def open_(interp, st, args, kwargs):
        bad = st.copy()
        bad.emit('open_failed', recv=args[0])
        yield bad, Raised(Exc('OSError'))
        f = sym.fresh(FILE, 'file')
        st.emit('open', recv=args[0], mode=args[1] if len(args) > 1 else 'r', file=f)
        yield st, f

    FILE.cm_enter = lambda i, s, cm: iter([(s, cm)])
    FILE.cm_exit = lambda i, s, cm, out: (s.emit('close', file=cm), iter([(s, out)]))[1]
    FILE.attrs = {'fileno': MethodModel('fileno', lambda i, s, a, k: iter([(s, sym.fresh(INT, 'fd'))]))}
    PATH.attrs = {
        'parent': Property(lambda i, s, v: iter([(s, SV(PATH, UF('path_parent', PATH, PATH)(v.z)))])),
        'name': Property(lambda i, s, v: iter([(s, SV(STR, UF('path_name', PATH, STR)(v.z)))])),
        'mkdir': MethodModel('mkdir', ev('mkdir')),
        'write_bytes': MethodModel('write_bytes', ev('write_bytes')),
        'replace': MethodModel('replace', ev('replace')),
        'unlink': MethodModel('unlink', lambda i, s, a, k: (s.emit('unlink', recv=a[0], kwargs=dict(k)), iter([(s, None)]))[1]),
        'open': MethodModel('open', open_),
        'read_bytes': MethodModel('read_bytes', ev('read_bytes')),
    }

    def seek(interp, st, args, kwargs):
        st.emit('stream_seek', pos=args[1])
        yield st, args[1]

    def truncate(interp, st, args, kwargs):
        bad = st.copy()
        bad.emit('stream_truncate_failed')
        yield bad, Raised(Exc('OSError'))
        st.emit('stream_truncate', size=args[1] if len(args) > 1 else None)
        yield st, None

    STREAM.attrs = {'seek': MethodModel('seek', seek), 'truncate': MethodModel('truncate', truncate)}
    b.sym('stream', STREAM)

    def copyfileobj(interp, st, args, kwargs):
        src, dst = args[0], args[1]
        # may fail after any prefix has been copied
        bad = st.copy()
        bad.emit('copy_partial', src=src, dst=dst, length=kwargs.get('length', args[2] if len(args) > 2 else None))
        yield bad, Raised(Exc('OSError'))
        st.emit('copy_all', src=src, dst=dst, length=kwargs.get('length', args[2] if len(args) > 2 else None))
        yield st, None

    b.bind('shutil', Obj('shutil', copyfileobj=Model('copyfileobj', copyfileobj)))

    def fstat(interp, st, args, kwargs):
        yield st, Obj('stat', st_size=sym.fresh(INT, 'st_size'))

    b.bind('os', Obj('os', fstat=Model('fstat', fstat), sep='/', fspath=_fspath(),
                     path=Obj('os.path', exists=Model('exists', lambda i, s, a, k: iter([(s, sym.fresh(BOOL, 'exists'))])),
                              split=Model('split', _os_path_split),
                              relpath=Model('relpath', _os_path_relpath))))
    b.sym('chunk_size', INT)
    b.sym('length', INT)
    b.sym('data', BYTES)


def _fspath():
    m = Model('fspath', lambda i, s, a, k: iter([(s, m.pure(a[0]))]))
    m.pure = lambda e: SV(STR, UF('entry_path', models.opaque_type('DirEntry'), STR)(e.z))
    return m


def _os_path_split(interp, st, args, kwargs):
    z = sym.lift(args[0], STR).z
    yield st, (SV(STR, UF('split_head', STR, STR)(z)), SV(STR, UF('split_tail', STR, STR)(z)))


def _os_path_relpath(interp, st, args, kwargs):
    # os.path.relpath(p, base) for p below base: the trailing part of p (assumed; bounded stand-in C13.local.list_names
    # exercises every spelling of the repository path)
    z = sym.lift(args[0], STR).z
    r = sym.fresh(STR, 'rel')
    st.assume(z3.SuffixOf(r.z, z))
    st.emit('relpath', base=args[1])
    yield st, r


def dest_temp_model(b):
    """contract of Local._destination_temp at its call sites (proved by unit destination_temp)"""
    def fn(interp, st, args, kwargs):
        bad = st.copy()
        bad.emit('destination_temp_failed')
        yield bad, Raised(Exc('OSError'))
        d = SV(PATH, path_join(b.me.get('path').z, sym.lift(args[0], STR).z))
        t = sym.fresh(PATH, 'temp')
        st.assume(d.z != t.z)            # a different name (ends with .tmp, C03.local.tmp_name)
        st.emit('destination_temp', destination=d, temp=t)
        yield st, (d, t)
    return Model('_destination_temp', fn)


# ---- upload / upload_stream / download_stream ---------------------------------------------------------
def upload_setup(b):
    env(b)
    b.me._attrs['_destination_temp'] = dest_temp_model(b)


def last(kinds, evs):
    xs = [e for e in evs if e.kind in kinds]
    return xs[-1] if xs else None


def upload_post(prop, streaming):
    def post(res):
        b = res.builder
        n_exc = 0
        for p in res.paths:
            evs = p.st.events
            kinds = [e.kind for e in evs]
            sig = ','.join(k for k in kinds if k not in ('destination_temp',)) + '->' + p.kind
            dt = p.events('destination_temp')
            reps = p.events('replace')
            if streaming:
                for e in p.events('copy_all') + p.events('copy_partial'):
                    # C20: the payload is read from the caller's (rate-limited) stream in pieces of the chunk size the
                    # COMMAND chose, never larger
                    ln = e.data.get('length')
                    res.oblige(p.pc_at(e), f'{prop}.local.upload_stream.reads_the_stream_in_pieces_of_chunk_size', z3.BoolVal(ln is not None) if ln is None else z3.And(
                        sym.lift(ln, INT).z == b.st.lookup('chunk_size').z, z3.BoolVal(e.data['src'] is b.st.lookup('stream'))))
            if p.kind in ('normal', 'return'):
                # the object becomes visible only through the atomic replace of a COMPLETE temp file
                ok = len(reps) == 1 and len(dt) == 1
                res.oblige(p, f'{prop}.local.{"upload_stream" if streaming else "upload"}.atomic_replace_of_complete_temp[{sig}]',
                           z3.BoolVal(ok) if not ok else z3.And(
                               reps[0].data['recv'].z == dt[0].data['temp'].z,
                               reps[0].data['args'][0].z == dt[0].data['destination'].z,
                               z3.BoolVal(('copy_all' if streaming else 'write_bytes') in kinds[:kinds.index('replace')])))
                if ok and streaming:
                    # ... and of a CLOSED one: everything written is flushed before the name becomes visible (a crash between the
                    # rename and the close would otherwise leave an empty / short object under the final name)
                    res.oblige(p, f'{prop}.local.upload_stream.temp_closed_before_it_is_renamed[{sig}]', z3.BoolVal(
                        'close' in kinds[:kinds.index('replace')] and kinds.index('close') > kinds.index('copy_all')))
            else:
                n_exc += 1
                if dt:
                    # the temp file is removed, the final name is never written directly
                    ul = p.events('unlink')
                    res.oblige(p, f'{prop}.local.failure_removes_temp[{sig}]', z3.BoolVal(bool(ul)) if not ul else
                               ul[-1].data['recv'].z == dt[0].data['temp'].z, tag='helper')
                    writes = [e for e in evs if e.kind in ('write_bytes', 'open') and e.data['recv'].z.eq(dt[0].data['destination'].z)]
                    res.oblige(p, f'{prop}.local.final_name_never_written_in_place[{sig}]', z3.BoolVal(not writes))
                    if streaming:
                        # C12.local.upload_stream.rewinds: on every exceptional exit after the temp exists the
                        # payload stream is back at offset 0
                        lk = last(('stream_seek', 'copy_partial', 'copy_all'), evs)
                        res.oblige(p, f'{prop}.local.upload_stream.rewinds[{sig}]', z3.BoolVal(
                            lk is not None and lk.kind == 'stream_seek') if not (lk is not None and lk.kind == 'stream_seek')
                            else sym.lift(lk.data['pos'], INT).z == 0)
        res.oblige([], f'{prop}.local.exceptional_paths_checked', z3.BoolVal(n_exc >= 2))
    return post


def download_stream_post(prop):
    def post(res):
        n_exc = 0
        b = res.builder
        for p in res.paths:
            for e in p.events('copy_all') + p.events('copy_partial'):
                ln = e.data.get('length')
                res.oblige(p.pc_at(e), f'{prop}.local.download_stream.writes_the_stream_in_pieces_of_chunk_size', z3.BoolVal(ln is not None) if ln is None else z3.And(
                    sym.lift(ln, INT).z == b.st.lookup('chunk_size').z, z3.BoolVal(e.data['dst'] is b.st.lookup('stream'))))
            evs = p.st.events
            kinds = [e.kind for e in evs]
            sig = ','.join(kinds) + '->' + p.kind
            if p.kind == 'raise' and 'open' in kinds:
                n_exc += 1
                lk = last(('stream_seek', 'copy_partial', 'copy_all', 'stream_truncate'), evs)
                # C12.local.download_stream.rewinds
                ok = lk is not None and lk.kind == 'stream_seek'
                res.oblige(p, f'{prop}.local.download_stream.rewinds[{sig}]', z3.BoolVal(ok) if not ok else
                           sym.lift(lk.data['pos'], INT).z == 0)
            if p.kind in ('normal', 'return'):
                # retry_idempotent: the stream is cut to the object's length before the copy, so a later
                # successful attempt from offset 0 leaves exactly the object bytes whatever was there
                tr = p.events('stream_truncate')
                res.oblige(p, f'{prop}.local.download_stream.truncates_to_object_length_before_copy[{sig}]', z3.BoolVal(
                    len(tr) == 1 and 'copy_all' in kinds and kinds.index('stream_truncate') < kinds.index('copy_all')))
        res.oblige([], f'{prop}.local.download_exceptional_paths_checked', z3.BoolVal(n_exc >= 2))
    return post


# ---- _destination_temp ----------------------------------------------------------------------------------
def dest_temp_setup(b):
    env(b)

    def ntf(interp, st, args, kwargs):
        st.emit('named_temp', kwargs=dict(kwargs))
        nm = sym.fresh(STR, 'tmpname')
        # tempfile.NamedTemporaryFile(suffix=s): the generated name ends with s [A]
        st.assume(z3.SuffixOf(sym.lift(kwargs.get('suffix', ''), STR).z, nm.z))
        yield st, Obj('tmp', name=nm)

    b.bind('NamedTemporaryFile', Model('NamedTemporaryFile', ntf))
    b.bind('Path', Model('Path', lambda i, s, a, k: iter([(s, SV(PATH, UF('path_of_str', STR, PATH)(sym.lift(a[0], STR).z)))])))


def dest_temp_post(prop):
    def post(res):
        b = res.builder
        for p in res.paths:
            if p.kind != 'return':
                continue
            nt = p.events('named_temp')
            ok = len(nt) == 1
            res.oblige(p, f'{prop}.local.temp.one_named_temp', z3.BoolVal(ok))
            if not ok:
                continue
            kw = nt[0].data['kwargs']
            # C03.local.tmp_invisible (writer half): temp files carry the '.tmp' suffix, live in the
            # destination's directory (same file system => os.replace is atomic) and are not auto-deleted
            res.oblige(p, f'{prop}.local.temp.suffix_is_tmp', sym.lift(kw.get('suffix', ''), STR).z == z3.StringVal('.tmp'))
            d, t = p.value
            # the directory of the object is (re)created by THIS call, before the temporary is: it may have been removed since any
            # earlier upload (delete + clean remove empty directories), so "created once" is not "exists now"
            kinds = [e.kind for e in p.st.events]
            mk = p.events('mkdir')
            okm = len(mk) >= 1 and kinds.index('mkdir') < kinds.index('named_temp') and mk[0].data['kwargs'].get('parents') is True and mk[0].data['kwargs'].get('exist_ok') is True
            res.oblige(p, f'{prop}.local.temp.directory_created_by_this_call', z3.BoolVal(False) if not okm else
                       mk[0].data['recv'].z == UF('path_parent', PATH, PATH)(path_join(b.me.get('path').z, b.st.lookup('name').z)))
            res.oblige(p, f'{prop}.local.temp.same_directory_and_kept', z3.And(
                z3.BoolVal(kw.get('delete') is False),
                kw['dir'].z == UF('path_parent', PATH, PATH)(d.z),
                d.z == path_join(b.me.get('path').z, b.st.lookup('name').z)))
    return post


# ---- list_files: temp files are never listed ---------------------------------------------------------------
DIRENTRY = models.opaque_type('DirEntry')


def list_files_setup(b):
    env(b)
    b.sym('prefix', STR)
    n_e, n_s = z3.Int('n_entries'), z3.Int('n_sub')
    b.assume(z3.And(n_e >= 0, n_s >= 0))
    ent = z3.Const('entries', z3.ArraySort(z3.IntSort(), DIRENTRY.sort()))
    sub = z3.Const('subentries', z3.ArraySort(z3.IntSort(), DIRENTRY.sort()))
    SCAN = models.opaque_type('ScanDir')
    SCAN.cm_enter = lambda i, s, cm: iter([(s, IterSpec(n_e, lambda k: SV(DIRENTRY, z3.Select(ent, k))))])
    SCAN.cm_exit = lambda i, s, cm, out: iter([(s, out)])

    def scandir(interp, st, args, kwargs):
        # the directory of the prefix does not exist (nothing stored there yet) / is not a directory
        for cls in ('FileNotFoundError', 'NotADirectoryError'):
            none = st.copy()
            none.emit('scandir_nothing_there', exc=cls)
            yield none, Raised(Exc(cls))
        # it exists but cannot be listed (EACCES, EIO, EMFILE ...)
        for cls in ('PermissionError', 'OSError'):
            bad = st.copy()
            bad.emit('scandir_refused', exc=cls)
            yield bad, Raised(Exc(cls))
        yield st, sym.fresh(SCAN, 'scan')

    b.me_os = b.st.lookup('os')
    b.me_os._attrs['scandir'] = Model('scandir', scandir)
    b.bind('str', Model('str', lambda i, s, a, k: iter([(s, SV(STR, UF('str_of_path', PATH, STR)(a[0].z)))])))
    fb = lambda nm: MethodModel(nm, lambda i, s, a, k: iter([(s, sym.fresh(BOOL, nm))]))
    DIRENTRY.attrs = {'name': Property(lambda i, s, v: iter([(s, SV(STR, UF('entry_name', DIRENTRY, STR)(v.z)))])),
                      'is_dir': fb('is_dir'), 'is_file': fb('is_file')}
    b.bind('iterative_scandir', Model('iterative_scandir', lambda i, s, a, k: iter(
        [(s, IterSpec(n_s, lambda kk: SV(DIRENTRY, z3.Select(sub, kk))))])))


def list_files_post(prop):
    def post(res):
        n = 0
        for p in res.all_paths():
            for e in p.events('yield'):
                n += 1
                v = sym.lift(e.data['value'], STR).z
                # C03.local.tmp_invisible (reader half): no listed name ends with '.tmp'
                res.oblige(p.pc_at(e), f'{prop}.local.list.tmp_never_listed', z3.Not(z3.SuffixOf(z3.StringVal('.tmp'), v)))
        for p in res.all_paths():
            if p.events('scandir_refused'):
                # a directory that exists but cannot be listed is an ERROR, never an empty listing: clean / delete take "not listed" for
                # "not referenced" (D16: EACCES on snapshots/ made clean remove every chunk)
                res.oblige(p, f'{prop}.local.list.unlistable_directory_is_an_error', z3.BoolVal(p.kind == 'raise'))
            elif p.events('scandir_nothing_there') and p.kind != 'loop':
                res.oblige(p, f'{prop}.local.list.missing_directory_is_an_empty_listing', z3.BoolVal(p.kind in ('return', 'normal') and not p.events('yield')))
        res.oblige([], f'{prop}.local.list.yield_sites_checked', z3.BoolVal(n >= 1))
    return post


# ------------------------------------------------------------------ the one-line operations: delete / exists / download act on the named object and
# report what really happened
def small_setup(b):
    env(b)

    def unlink(interp, st, a, k):
        missing_ok = k.get('missing_ok', a[1] if len(a) > 1 else False)
        if missing_ok not in (True, False):
            raise sym.Unsupported('unlink(missing_ok=<not a literal>)')
        # the object is absent
        gone = st.copy()
        gone.emit('unlink_absent', recv=a[0])
        yield gone, (None if missing_ok else Raised(Exc('FileNotFoundError')))
        # the object is there but cannot be removed (EACCES / EPERM / EROFS / EIO)
        denied = st.copy()
        denied.emit('unlink_denied', recv=a[0])
        yield denied, Raised(Exc('PermissionError'))
        st.emit('unlink_done', recv=a[0])
        yield st, None

    def read_bytes(interp, st, a, k):
        bad = st.copy()
        bad.emit('read_failed', recv=a[0])
        yield bad, Raised(Exc('OSError'))
        v = sym.fresh(BYTES, 'file_bytes')
        st.emit('read_bytes', recv=a[0], value=v)
        yield st, v

    def exists(interp, st, a, k):
        v = sym.fresh(BOOL, 'exists')
        st.emit('exists', arg=a[0], value=v)
        yield st, v

    PATH.attrs = dict(PATH.attrs, unlink=MethodModel('unlink', unlink), read_bytes=MethodModel('read_bytes', read_bytes),
                      exists=MethodModel('exists', lambda i, s, a, k: exists(i, s, a, k)))
    os_ = b.st.lookup('os')
    b.bind('os', Obj('os', **dict(os_._attrs, path=Obj('os.path', **dict(os_._attrs['path']._attrs, exists=Model('exists', exists))))))


def small_post(prop, which):
    def post(res):
        b = res.builder
        target = path_join(b.me.get('path').z, b.st.lookup('name').z)
        for p in res.paths:
            if which == 'delete':
                evs = [e for e in p.st.events if e.kind in ('unlink_absent', 'unlink_denied', 'unlink_done')]
                ok = len(evs) >= 1
                res.oblige(p, f'{prop}.local.delete.removes_the_named_object', z3.BoolVal(False) if not ok else
                           z3.And(*[e.data['recv'].z == target for e in evs]))
                if not ok:
                    continue
                last_ = evs[-1].kind
                # "deleted" is never reported for an object that is still there: a refusal of the file system reaches the caller
                # (delete_snapshots and clean remove chunks only after the snapshot objects are really gone)
                if last_ == 'unlink_denied':
                    res.oblige(p, f'{prop}.local.delete.a_refused_removal_is_reported', z3.BoolVal(p.kind == 'raise'))
                else:
                    # idempotent: an object that is already absent is not an error
                    res.oblige(p, f'{prop}.local.delete.absent_or_removed_returns_normally', z3.BoolVal(p.kind in ('return', 'normal')))
            elif which == 'exists':
                evs = p.events('exists')
                ok = len(evs) == 1 and p.kind == 'return'
                res.oblige(p, f'{prop}.local.exists.answers_for_the_named_object', z3.BoolVal(False) if not ok else
                           z3.And(sym.lift(evs[0].data['arg'], PATH).z == target, sym.lift(p.value, BOOL).z == evs[0].data['value'].z))
            elif which == 'download':
                ok_ev, bad_ev = p.events('read_bytes'), p.events('read_failed')
                if bad_ev and not ok_ev:
                    res.oblige(p, f'{prop}.local.download.failure_is_reported', z3.And(z3.BoolVal(p.kind == 'raise'), *[e.data['recv'].z == target for e in bad_ev]))
                else:
                    ok = len(ok_ev) == 1 and p.kind == 'return'
                    res.oblige(p, f'{prop}.local.download.returns_the_bytes_of_the_named_object', z3.BoolVal(False) if not ok else
                               z3.And(ok_ev[0].data['recv'].z == target, sym.lift(p.value, BYTES).z == ok_ev[0].data['value'].z))
    return post


def small_units(prop):
    return [Unit(f'{prop}.local.{w}', LOCAL_PY, f'Local.{w}', small_setup, small_post(prop, w), prop=prop) for w in ('delete', 'exists', 'download')]


def units(prop):
    t = lambda ctx: z3.BoolVal(True)
    return [
        Unit(f'{prop}.local.upload', LOCAL_PY, 'Local.upload', upload_setup, upload_post(prop, False), prop=prop),
        Unit(f'{prop}.local.upload_stream', LOCAL_PY, 'Local.upload_stream', upload_setup, upload_post(prop, True), prop=prop),
        Unit(f'{prop}.local.download_stream', LOCAL_PY, 'Local.download_stream', upload_setup, download_stream_post(prop), prop=prop),
        Unit(f'{prop}.local.destination_temp', LOCAL_PY, 'Local._destination_temp', dest_temp_setup, dest_temp_post(prop), prop=prop),
        Unit(f'{prop}.local.list_files', LOCAL_PY, 'Local.list_files', list_files_setup, list_files_post(prop),
             loops={'For#1': LoopSpec(t, modifies=[], name='entries', types={'subentries': None}),
                    'For#2': LoopSpec(t, modifies=[], name='paths')}, prop=prop),
    ]
