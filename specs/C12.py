"""C12 - Transient backend faults are masked and persistent ones end in a bounded error."""
from specs import streams, local, s3, b2, retry, ratelimit, options

LEVEL = 'proof'
UNITS = [options.main_run_unit('C12'), b2.upload_url_unit('C12')] + local.units('C12')[1:3] + s3.method_units('C12')[6:9] + b2.units('C12')[1:3] + [retry.retry_finite('C12')] + retry.requires_auth_units('C12') + retry.giveup_units('C12') + ratelimit.forward_units('C12') + streams.units('C12')
from specs import families as _families
UNITS = _families.with_families('C12', UNITS)
BOUNDED = [{'name': 'C12.faults', 'script': 'bounded/c12_faults.py', 'timeout': 900, 'bound': 'payloads of 0/1/2.5/4 stream chunks; fault kinds OSError(stream), ReadError, 500, 429+retry-after, 401(B2); 1..3 consecutive faults (masked) and persistent (bounded error); local, s3c, b2; sleeps patched out; command level: a snapshot of ~130 chunks on the local backend with copyfileobj failing (persistently: ends with the error within 40 s; the first two attempts of every object: masked, restore exact)'}]
TRUSTED = [
    'vf symbolic executor (/verif/vf): encoding of the Python subset (DESIGN 2.2)',
    'z3 5.1 (API + z3-new CLI), cvc5 1.0.3 (strings)',
]
ASSUMPTIONS = ['backoff.on_exception(max_tries=n) calls the function at most n times and re-raises the last exception; giveup only shortens (assumed)', 'httpx sends what it is given; a dropped connection surfaces as httpx.HTTPError; S3/B2 store exactly the bytes of a successful request (assumed)', 'shutil.copyfileobj / aiter_chunks may fail after any prefix; response.aiter_bytes may fail after any chunk', 'callers hand over streams positioned at 0 (Repository call sites create fresh BytesIO / opened files)']
MANIFEST = {
    'text': 'Deductive proof of the exceptional postconditions that make retries safe: every streaming upload/download of the three adapters leaves the payload stream at offset 0 on every exceptional exit, downloads cut the target to the announced length before writing (a retry from offset 0 yields exactly the object), the S3 stream digest hashes exactly the bytes sent and rewinds, wrappers forward seek/tell/truncate, every public transfer method runs under a literal finite retry budget, and re-authentication is bounded.',
    'note': 'Trusted: vf engine, SMT solver; backoff/httpx/service behaviour assumed. Bounded stand-in C12.faults injects faults into the real adapters (MockTransport / faulty streams).',
    'technique': 'contract-based deductive verification: sidecar contracts + loop invariants on the real functions, VCs by symbolic execution of the AST, discharged by z3/cvc5',
    'design_ref': 'DESIGN.md 6/C12',
}
