"""Shared ghost model, crypto axioms (assumed contracts) and the Repository facade."""
from __future__ import annotations

import z3

from vf import sym, source, models, ops
from vf.sym import SV, INT, BOOL, REAL, STR, BYTES, Opt, Tup, Ref, Cls, Unsupported, lift
from vf.interp import Obj, Model, Closure, Exc, Raised, ExcClass, Interp, make_ntup, NTup
from vf.models import uf_model, opaque_type, simple
from vf.ops import Property, MethodModel, to_ty, CM
from vf import report

REPO_PY = 'replicat/repository.py'
ADAPTERS_PY = 'replicat/utils/adapters.py'
UTILS_PY = 'replicat/utils/__init__.py'

_I = Interp  # uf registry lives on the class


def UF(name, *tys):
    return Interp('uf').uf(name, *tys)


# ---- uninterpreted primitives (assumed: deterministic functions) ------------
def H():
    return UF('H', BYTES, BYTES)                 # hasher.digest


def MAC():
    return UF('MAC', BYTES, BYTES, BYTES)        # (params, message)


def KDF():
    return UF('KDF', BYTES, BYTES, BYTES, BYTES)  # (key_material, context, params)


def ENC():
    return UF('ENC', BYTES, BYTES, BYTES, BYTES)  # (plaintext, key, nonce)


def DEC():
    return UF('DEC', BYTES, BYTES, BYTES)        # (ciphertext, key)


def NONCE_OF():
    return UF('nonce_of', BYTES, BYTES)


EXCEPTIONS = Obj('exceptions', ReplicatError=ExcClass('ReplicatError'), DecryptionError=ExcClass('DecryptionError'),
                 AuthRequired=ExcClass('AuthRequired'), InvalidConfig=ExcClass('InvalidConfig'))

# opaque adapter objects ------------------------------------------------------
_nonce_counter = [0]


def _cipher_encrypt(interp, st, args, kwargs):
    _, data, key = args
    nonce = sym.fresh(BYTES, 'nonce')
    zd, zk = to_ty(interp, st, data, BYTES).z, to_ty(interp, st, key, BYTES).z
    c = ENC()(zd, zk, nonce.z)
    st.assume(DEC()(c, zk) == zd)               # A-aead (correctness half)
    st.assume(NONCE_OF()(c) == nonce.z)
    st.emit('encrypt', data=SV(BYTES, zd), key=SV(BYTES, zk), nonce=nonce, result=SV(BYTES, c))
    yield st, SV(BYTES, c)


def _cipher_decrypt(interp, st, args, kwargs):
    _, data, key = args
    zd, zk = to_ty(interp, st, data, BYTES).z, to_ty(interp, st, key, BYTES).z
    bad = st.copy()
    bad.emit('decrypt_failed', data=SV(BYTES, zd), key=SV(BYTES, zk))
    yield bad, Raised(Exc('DecryptionError'))
    p = DEC()(zd, zk)
    # A-aead (authenticity half): a successful decryption means the ciphertext was
    # produced by ENC of exactly this plaintext under exactly this key
    st.assume(zd == ENC()(p, zk, NONCE_OF()(zd)))
    st.emit('decrypt_ok', data=SV(BYTES, zd), key=SV(BYTES, zk), result=SV(BYTES, p))
    yield st, SV(BYTES, p)


CIPHER = opaque_type('Cipher', attrs={
    'encrypt': MethodModel('cipher.encrypt', _cipher_encrypt),
    'decrypt': MethodModel('cipher.decrypt', _cipher_decrypt),
})


def _hasher_digest(interp, st, args, kwargs):
    _, data = args
    yield st, SV(BYTES, H()(to_ty(interp, st, data, BYTES).z))


HASHER = opaque_type('Hasher', attrs={'digest': MethodModel('hasher.digest', _hasher_digest)})


def _mac_mac(interp, st, args, kwargs):
    _, msg = args
    params = kwargs['params']
    yield st, SV(BYTES, MAC()(to_ty(interp, st, params, BYTES).z, to_ty(interp, st, msg, BYTES).z))


MACT = opaque_type('Mac', attrs={'mac': MethodModel('authenticator.mac', _mac_mac)})


def _kdf_derive(interp, st, args, kwargs):
    _, km = args
    ctx = kwargs.get('context')
    params = kwargs['params']
    zctx = to_ty(interp, st, ctx, BYTES).z if ctx is not None else z3.StringVal('')
    yield st, SV(BYTES, KDF()(to_ty(interp, st, km, BYTES).z, zctx, to_ty(interp, st, params, BYTES).z))


KDFT = opaque_type('Kdf', attrs={'derive': MethodModel('kdf.derive', _kdf_derive)})
CHUNKER = opaque_type('Chunker')

PRIVATE = Cls('Private', {'shared_key': BYTES, 'shared_kdf_params': BYTES, 'mac_params': BYTES,
                          'chunker_params': BYTES}, keyed=True)

PROPS = Cls('RepositoryProps', {
    'chunker': CHUNKER, 'hasher': HASHER, 'cipher': Opt(CIPHER), 'userkey': Opt(BYTES),
    'authenticator': Opt(MACT), 'shared_kdf': Opt(KDFT), 'private': Opt(Ref(PRIVATE)),
})
PROPS.lenient = True        # attributes / class attributes without a model hold arbitrary state (e.g. a memo a change added)


def _real_method(relpath, dotted):
    return Closure(source.select(relpath, dotted), 0, dotted.split('.')[-1])


def _real_property(relpath, dotted):
    node = source.select(relpath, dotted)

    def fn(interp, st, v):
        yield from interp.call_closure(st, Closure(node, 0, node.name, bound_self=v), [], {})
    return Property(fn)


def props_consts():
    """RepositoryProps' methods are the REAL code (inlined), the adapters are UFs."""
    return {
        'encrypted': _real_property(REPO_PY, 'RepositoryProps.encrypted'),
        'hash_digest': _real_method(REPO_PY, 'RepositoryProps.hash_digest'),
        'encrypt': _real_method(REPO_PY, 'RepositoryProps.encrypt'),
        'decrypt': _real_method(REPO_PY, 'RepositoryProps.decrypt'),
        'mac': _real_method(REPO_PY, 'RepositoryProps.mac'),
        'derive_shared_subkey': _real_method(REPO_PY, 'RepositoryProps.derive_shared_subkey'),
    }


def make_props(b, name='props'):
    PROPS.consts = props_consts()
    p = b.ref(name, PROPS, bind=False)
    h = b.st.heap
    enc = z3.Not(Opt(CIPHER).is_none(h.read(PROPS, 'cipher', p.z)))
    # data-structure invariant of RepositoryProps (established by init/unlock: unit C06.unlock.wf)
    wf = z3.Implies(enc, z3.And(
        z3.Not(Opt(BYTES).is_none(h.read(PROPS, 'userkey', p.z))),
        z3.Not(Opt(MACT).is_none(h.read(PROPS, 'authenticator', p.z))),
        z3.Not(Opt(KDFT).is_none(h.read(PROPS, 'shared_kdf', p.z))),
        z3.Not(Opt(Ref(PRIVATE)).is_none(h.read(PROPS, 'private', p.z))),
    ))
    b.assume(wf)
    return p, enc


class PropsView:
    """z3 terms for the secrets of a props object (for writing specs)"""

    def __init__(self, st, p):
        h = st.heap
        self.encrypted = z3.Not(Opt(CIPHER).is_none(h.read(PROPS, 'cipher', p.z)))
        self.userkey = Opt(BYTES).val(h.read(PROPS, 'userkey', p.z))
        priv = Opt(Ref(PRIVATE)).val(h.read(PROPS, 'private', p.z))
        self.private = priv
        self.shared_key = h.read(PRIVATE, 'shared_key', priv)
        self.shared_kdf_params = h.read(PRIVATE, 'shared_kdf_params', priv)
        self.mac_params = h.read(PRIVATE, 'mac_params', priv)
        self.chunker_params = h.read(PRIVATE, 'chunker_params', priv)

    def mac(self, z):
        return MAC()(self.mac_params, z)

    def subkey(self, ctx):
        return KDF()(self.shared_key, ctx, self.shared_kdf_params)


def repo_self(b, inline=(), extra=None, props=True, cache=True):
    """facade for `self` of Repository.  `inline`: real methods executed from source."""
    attrs = {'CHUNK_PREFIX': None, 'SNAPSHOT_PREFIX': None}
    for nm in ('CHUNK_PREFIX', 'SNAPSHOT_PREFIX', 'EMPTY_TABLE_VALUE'):
        node = source.class_attr(REPO_PY, 'Repository', nm)
        attrs[nm] = node.value
    me = Obj('self')
    me._class_source = (REPO_PY, 'Repository')   # methods without a model are the real ones, inlined
    me._lenient = True        # attributes the sidecar does not know hold arbitrary state (over-approximation)
    if props:
        p, enc = make_props(b)
        attrs['props'] = p
        me.props, me.enc = p, enc
    if cache:
        attrs['_cache_directory'] = sym.const(Opt(STR), 'cache_directory')
    attrs['_quiet'] = sym.const(BOOL, 'quiet')
    conc = sym.const(INT, 'concurrent')
    b.assume(conc.z >= 1)
    attrs['_concurrent'] = conc
    for nm in inline:
        c = _real_method(REPO_PY, 'Repository.' + nm)
        c.bound_self = me
        attrs[nm] = c
    attrs.update(extra or {})
    me._attrs = attrs
    b.bind('self', me)
    b.bind('exceptions', EXCEPTIONS)
    b.bind('posixpath', models.POSIXPATH)
    b.bind('bytes', _bytes_with_fromhex())
    return me


def _bytes_with_fromhex():
    base = models.BUILTINS['bytes']

    class BytesObj(Obj):
        pass
    o = Model('bytes', base.fn)
    # allow bytes.fromhex via attribute access on the model: handled in ops.getattr_ fallback
    o.attrs = {'fromhex': models.BYTES_TYPE.get('fromhex')}
    return o


def split_known(res, path_or_pc, name, goal, fid, within, tag='top', meta=None):
    """Emit `name` as a top obligation; if finding `fid` is listed open in
    known_findings.json, split it into [outside fid] (must hold) and [within fid]
    (expected refuted -> KNOWN-FINDING)."""
    pc = path_or_pc.st.pc if hasattr(path_or_pc, 'st') else list(path_or_pc)
    if report.is_open(fid):
        res.oblige(pc + [z3.Not(within)], f'{name}[outside {fid}]', goal, tag, meta)
        res.oblige(pc + [within], f'{name}[within {fid}]', goal, f'known:{fid}', meta)
    else:
        res.oblige(pc, name, goal, tag, meta)


# ---- snapshot bodies as loaded by _load_snapshots (contract-level view) -------
BODY = models.opaque_type('Body', pytype='dict')
SNAPDATA = models.opaque_type('SnapData', pytype='dict')
CHUNKLIST = models.opaque_type('ChunkList', pytype='list')
DIGESTSET = models._ArrTy(BYTES)


def body_data(z):
    return UF('body_data', BODY, Opt(SNAPDATA))(z)


def body_chunks(z):
    return UF('body_chunks', BODY, CHUNKLIST)(z)


def chunkset(z):
    """set view of a chunk table"""
    return UF('chunkset', CHUNKLIST, DIGESTSET)(z)


def chunk_at(z, i):
    return UF('chunk_at', CHUNKLIST, INT, BYTES)(z, i)


def chunk_len(z):
    return UF('chunk_len', CHUNKLIST, INT)(z)


def _body_getitem(interp, st, v, idx):
    if idx == 'data':
        yield st, SV(Opt(SNAPDATA), body_data(v.z))
    elif idx == 'chunks':
        yield st, SV(CHUNKLIST, body_chunks(v.z))
    else:
        raise Unsupported(f'body[{idx!r}]')


BODY.getitem = _body_getitem
CHUNKLIST.elems = lambda interp, st, v: (chunkset(v.z), BYTES)


def _chunklist_getitem(interp, st, v, idx):
    zi = lift(idx, INT).z
    n = chunk_len(v.z)
    for s, ok in interp.branch(st, z3.And(0 <= zi, zi < n)):   # negative indices: not produced by replicat
        if ok:
            r = chunk_at(v.z, zi)
            s.assume(z3.Select(chunkset(v.z), r))
            yield s, SV(BYTES, r)
        else:
            yield s, Raised(Exc('IndexError'))


CHUNKLIST.getitem = _chunklist_getitem


class Loaded:
    """ghost: the sequence yielded by _load_snapshots() in this command"""

    def __init__(self, tagname='L'):
        self.n = z3.Int(f'{tagname}_n')
        self.P = z3.Const(f'{tagname}_paths', z3.ArraySort(z3.IntSort(), z3.StringSort()))
        self.Bd = z3.Const(f'{tagname}_bodies', z3.ArraySort(z3.IntSort(), BODY.sort()))

    def path(self, i):
        return z3.Select(self.P, i)

    def body(self, i):
        return z3.Select(self.Bd, i)

    def chunks(self, i):
        return chunkset(body_chunks(self.body(i)))

    def readable(self, i):
        return z3.Not(Opt(SNAPDATA).is_none(body_data(self.body(i))))


def snap_name(z):
    """contract of parse_snapshot_location(path).name (proved in C08.loc)"""
    return UF('snap_name', STR, STR)(z)


def snap_tag(z):
    return UF('snap_tag', STR, STR)(z)


def parse_snapshot_location_model():
    def fn(interp, st, args, kwargs):
        (p,) = args
        z = lift(p, STR).z
        yield st, make_ntup(('name', 'tag'), (SV(STR, snap_name(z)), SV(STR, snap_tag(z))))
    return Model('parse_snapshot_location', fn)


def load_snapshots_model(b, L, with_regex=False):
    """contract of Repository._load_snapshots used at call sites (its own unit: C04.load)."""
    from vf.interp import IterSpec
    i, j = z3.Ints('li lj')
    b.assume(L.n >= 0)
    # each listed path is yielded at most once (list_files yields each live name once [A],
    # as_completed delivers each future once [A])
    b.assume(z3.ForAll([i, j], z3.Implies(z3.And(0 <= i, i < j, j < L.n), L.path(i) != L.path(j))))

    def fn(interp, st, args, kwargs):
        st.emit('load_snapshots', kwargs=dict(kwargs))
        yield st, IterSpec(L.n, lambda k: (SV(STR, L.path(k)), SV(BODY, L.body(k))))
    return Model('_load_snapshots', fn)
