"""C20 - The bandwidth limit is respected and transparent to the data."""
from specs import streams, ratelimit, local, s3, b2

LEVEL = 'proof'
# the adapters move the payload in pieces of the chunk size the command passes (premise d <= L/4 reaches the limiter)
UNITS = ratelimit.units('C20') + local.units('C20')[1:3] + s3.method_units('C20')[6:7] + s3.method_units('C20')[8:9] + b2.units('C20')[1:3] + streams.units('C20')
from specs import families as _families
UNITS = _families.with_families('C20', UNITS)
BOUNDED = [
    {'name': 'C20.e2e.window', 'script': 'bounded/c20_e2e.py', 'timeout': 900,
     'bound': 'the four rate-limited commands (snapshot, restore, upload-objects, download-objects) on a recording local backend under a virtual '
              'clock (exact for concurrency 1; for concurrency 2, 3 elapsed time is over-estimated, i.e. a weaker check): L = 4096 (thorough: also '
              '40000) B/s, ~12 virtual seconds of payload per command in objects of 3/4 L, plain (thorough: also encrypted); every window of '
              'transfers at the backend <= L*T + L*PAUSE_LIMIT + N*L/4, data intact; 400 (thorough: 3000) random sequences of read / write / seek / tell / truncate(n incl. 0) / truncate() on a wrapped BytesIO against a plain one'},
    {'name': 'C20.sim.window', 'script': 'bounded/c20_sim.py', 'timeout': 900,
     'bound': 'real limiter under a virtual clock and a deterministic seeded scheduler (one thread runs at a time, FIFO locks, optional '
              'preemption at clock readings): 10 (thorough: 200) schedules of 1..4 streams, reads/writes, request sizes <= L/4 fixed or '
              'mixed, think time, 20 (thorough: 60) virtual seconds; every window of transfers <= L*T + L*PAUSE_LIMIT + n*d_max and bytes '
              'intact; slow underlying streams with >= 2 streams are the class of known finding D11'},
    {'name': 'C20.multi.window', 'script': 'bounded/c20_multi.py', 'timeout': 300,
     'bound': 'real threads, real time: 1/3/4 (thorough: also 2) streams on one limiter, L=40000 B/s, requests of L/16, ~1 s each; '
              'single-stream and zero-latency cases must respect L*T + allowance, the slow-source multi-stream case is known finding D11'},
]
TRUSTED = [
    'vf symbolic executor (/verif/vf)', 'z3 5.1 (non-linear real arithmetic)',
]
ASSUMPTIONS = [
    'A-float: floats are treated as reals (IEEE rounding ignored)',
    'time.perf_counter is monotone; time.sleep(x) returns after x + overshoot, overshoot >= 0; the window lemma assumes the per-sleep excess is bounded by dmax',
    'premise: request sizes d <= L/4 (what the commands choose: proved for the four call sites); s3c._get_stream_hexdigest reads 640000-byte blocks through the limited stream, outside the premise (observation)',
    'SEVERAL streams on one limiter: NOT proved (the sequential potential argument does not extend); bounded stand-in only, known finding D11',
]
MANIFEST = {
    'text': 'Deductive proof for ONE stream, all limits and all request/latency sequences: read/write pass the data through untouched, the potential L*t - sent + L*debt never decreases and the amortised debt stays within [-excess, 0.25], which gives the window bound sent(T) <= L*T + L*(0.25 + dmax); seek/tell/truncate are forwarded; the commands choose a chunk size <= L/4 and all three adapters move the payload through the limited stream in pieces of exactly that size. Several streams on one limiter are covered only by a labelled bounded stand-in.',
    'note': 'Trusted: vf engine, z3 NRA; floats as reals; clock/sleep model. Open known finding D11 (N streams with slow sources reach N*L) is reproduced natively by the stand-in.',
    'technique': 'contract-based deductive verification: sidecar contracts on the real functions, VCs by symbolic execution of the AST over linear/non-linear real arithmetic, discharged by z3',
    'design_ref': 'DESIGN.md 6/C20',
}
