"""C01 - Backup round trip is the identity on file trees."""
from specs import snapshot, restore, c01_lemmas

LEVEL = 'proof'
UNITS = [snapshot.chunk_done_unit('C01'), snapshot.stream_unit('C01'), snapshot.producer_unit('C01'), restore.write_part_unit('C01'), restore.plan_unit('C01'), restore.write_ref_unit('C01'), snapshot.flatten_unit('C01'), c01_lemmas.lemmas('C01')]
TRUSTED = []
ASSUMPTIONS = []
