"""C01 - Backup round trip is the identity on file trees."""
from specs import misc, fsutil, snapshot, restore, c01_lemmas

LEVEL = 'proof'
UNITS = fsutil.units('C01') + [
    snapshot.flatten_unit('C01'),
    snapshot.head_unit('C01'),
    snapshot.stream_unit('C01'),
    snapshot.producer_unit('C01'),
    snapshot.run_unit('C01'),
    snapshot.chunk_done_unit('C01'),
    restore.plan_unit('C01'),
    restore.write_ref_unit('C01'),
    restore.restore_tail_unit('C01'),
    restore.write_part_unit('C01'),
    c01_lemmas.lemmas('C01'),
] + misc.metadata_units('C01') + misc.hashlib_adapter_units('C01')
from specs import families as _families
UNITS = _families.with_families('C01', UNITS)
BOUNDED = [
    {'name': 'C01.e2e', 'script': 'bounded/c01_e2e.py', 'timeout': 1200,
     'bound': 'sibling names that look like scratch files (X, X.part, X.tmp, X~, .X.swp) and unrelated pre-existing files of such names next to every restored file; <= 4 files; sizes from the boundary family around alignment 4, min, max, 2*max (max <= 64); '
              'argument lists with repeats/overlaps/symlinks; pre-existing targets absent/shorter/equal/longer; '
              'encrypted x {aes_gcm, chacha20} x {blake2b, sha2, sha3}; concurrency 1,2,5; thorough adds 600 seeded random cases. '
              'The 16 MiB read piece of _stream_files is NOT reached (a closure default that cannot be shrunk without editing /repo).; two cases on a SLOW backend (40-60 ms per stream upload) with more chunks than the producer/worker queue holds'},
]
TRUSTED = [
    'vf symbolic executor (/verif/vf): encoding of the Python subset (DESIGN 2.2)',
    'z3 5.1 (API + z3-new CLI), cvc5 1.0.3 (strings)',
    'assumed library contracts: bisect.bisect_left, dict insertion order, dict.fromkeys, sorted(key=), io file semantics (seek/truncate/write)',
]
ASSUMPTIONS = [
    'chunker contract C10 (chunks non-empty, concatenation = stream) is used as the iteration domain of _chunk_producer',
    'A-aead / A-collision for the crypto primitives (uninterpreted H, ENC, DEC, KDF, MAC)',
    'A-tiling: consecutive non-empty chunks covering [0,total) are used as a function chunk_of(position) in the lemmas (induction over chunks not done by the solver)',
    '_chunk_done is atomic w.r.t. the producer for files with start <= chunk end (queue.Queue happens-before; stated, not proved)',
    'files do not change during the snapshot (premise of the property)',
    'symlinked *file* arguments are recorded under the resolved path (read as the file\'s original path)',
    'os.truncate / os.utime / pathlib behave as documented',
]
MANIFEST = {
    'text': 'Contract-based deductive proof (own VC generator over the real source, z3/cvc5) of the offset/range/plan/write '
            'bookkeeping of snapshot and restore for all file sizes, chunk boundaries and table contents, plus tiling/round-trip '
            'lemmas over those contracts; composition with real threads, chunker and crypto is covered by a labelled bounded stand-in.',
    'note': 'Trusted: vf engine encoding, SMT solvers, assumed library/crypto contracts (see evidence.assumptions). '
            'Bounded stand-in C01.e2e is not counted as proved. Known finding D3 (all-empty tree) is reported by the stand-in.',
    'technique': 'contract-based deductive verification: sidecar contracts + loop invariants on the real functions, VCs by symbolic execution of the AST, discharged by z3/cvc5',
    'design_ref': 'DESIGN.md 6/C01',
}
