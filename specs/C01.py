"""C01 - Backup round trip is the identity on file trees."""
from specs import snapshot, restore

LEVEL = 'proof'
UNITS = [snapshot.chunk_done_unit('C01'), snapshot.stream_unit('C01'), snapshot.producer_unit('C01'), restore.write_part_unit('C01'), restore.plan_unit('C01')]
TRUSTED = []
ASSUMPTIONS = []
