"""C10 - The chunker is a lossless, bounded, deterministic function of the stream."""
from specs import chunker

LEVEL = 'proof'
UNITS = [chunker.next_cut_unit('C10'), chunker.next_cut_frame('C10'), chunker.call_unit('C10'), chunker.c10_lemmas('C10')]
from specs import families as _families
UNITS = _families.with_families('C10', UNITS)
BOUNDED = [
    {'name': 'C10.so_conformance', 'script': 'bounded/c10_conformance.py', 'timeout': 900,
     'bound': 'shipped .so through the real adapter: all 1<=min<=max<=9 (thorough: 12) with an aligned length in range; '
              'stream lengths {0..7, min, max-1..max+1, 2max-1..2max+1, 3max+2}; ALL segmentations of streams <= 7 bytes, '
              'seeded random ones above; 2 (thorough: 3) keys; large single pieces of round sizes (2^16 .. 2^24, multiples of 1 MiB / 4 MiB, 10^6) in 3 segmentations each, 2 parameter pairs'},
]
TRUSTED = [
    'vf symbolic executor + cvc front end (/verif/vf/cxx.py): C++ subset -> Python ast translation as stated in its docstring',
    'z3 5.1, cvc5 1.0.3',
    'the shipped _replicat_adapters*.so is a build product that cannot be regenerated offline (no pybind11 headers): the proof is about src/adapters.cpp, the bounded stand-in runs the shipped binary',
]
ASSUMPTIONS = [
    'key() is a pure function of the key material and of the 8-byte window named by its single load intrinsic (CLMUL arithmetic uninterpreted)',
    'size_t values below 2**62 (no wrap-around in 2*max, max+min, min+3); machine integers otherwise treated as mathematical',
    'bytearray slicing / del semantics as modelled (value semantics: the buffer is not aliased in the unit)',
    'the iterator protocol: next(it, None) returns each piece once, then None',
]
MANIFEST = {
    'text': 'Deductive proof from the C++ source of next_cut (range, productivity, bounds+alignment outside the tail, in-bounds reads, frame) for all sizes, parameters and buffers, '
            'and of the Python adapter against that contract (lossless for every segmentation incl. empty pieces, non-empty chunks, termination, final flag), plus lemmas for the tail zone and segmentation independence.',
    'note': 'Trusted: vf engine + C++ mini front end, SMT solvers; CLMUL hash uninterpreted. Open known finding D4 (reads past the buffer when max_length % 4 != 0) is reported by the proof (split obligation) and reproduced natively by the .so conformance stand-in.',
    'technique': 'contract-based deductive verification: sidecar contracts + loop invariants on the real functions (Python AST and a mini C++ front end), VCs by symbolic execution, discharged by z3/cvc5',
    'design_ref': 'DESIGN.md 6/C10',
}
