"""C10 - The chunker is a lossless, bounded, deterministic function of the stream."""
from specs import chunker

LEVEL = 'proof'
UNITS = [chunker.next_cut_unit('C10'), chunker.next_cut_frame('C10'), chunker.call_unit('C10')]
BOUNDED = []
TRUSTED = []
ASSUMPTIONS = []
