"""The cell of a listing row: what list_snapshots / list_files put into `row[column]` for the value a column getter returned.

The statements are extracted mechanically on every run: the innermost `for` loop of the real function whose body stores into
`row[...]`; its BODY is executed as it stands (one iteration for one arbitrary column) with the getter under an assumed contract
(it returns an arbitrary optional int or an arbitrary optional string).  Nothing is dropped from the body; what surrounds it (loading,
sorting, header, ljust/center of the finished table) is not part of this unit."""
from __future__ import annotations

import ast

import z3

from vf import sym, models, source
from vf.sym import SV, INT, STR, Opt
from vf.interp import Model, Obj
from vf.unit import Unit
from specs import shared
from specs.shared import REPO_PY


def _cell_loop(dotted):
    fn = source.select(REPO_PY, dotted)
    best = None
    for n in ast.walk(fn):
        if isinstance(n, (ast.For, ast.AsyncFor)):
            stores = [m for m in ast.walk(n) if isinstance(m, ast.Subscript) and isinstance(m.ctx, ast.Store)
                      and isinstance(m.value, ast.Name) and m.value.id == 'row']
            inner = [m for m in ast.walk(n) if m is not n and isinstance(m, (ast.For, ast.AsyncFor))
                     and any(isinstance(k, ast.Subscript) and isinstance(k.ctx, ast.Store) and isinstance(k.value, ast.Name)
                             and k.value.id == 'row' for k in ast.walk(m))]
            if stores and not inner:
                best = n
    if best is None:
        raise source.SelectorError(f'{dotted}: no loop that fills row[...]')
    return best


def _loader(dotted):
    def load():
        loop = _cell_loop(dotted)
        fn = ast.FunctionDef(name='cell_of_' + dotted.split('.')[-1], args=ast.arguments(
            posonlyargs=[], args=[ast.arg(arg='self')], vararg=None, kwonlyargs=[], kw_defaults=[], kwarg=None, defaults=[]),
            body=loop.body, decorator_list=[], returns=None, type_comment=None, lineno=loop.lineno, col_offset=0)
        fn.cxx_text = ast.unparse(loop)
        fn.loop_target = loop.target
        fn.loop_iter = loop.iter
        return fn
    return load


COLUMN = models.opaque_type('Column')


def _setup(dotted, kind):
    def setup(b):
        me = shared.repo_self(b, props=False, cache=False)
        b.me = me
        loop = _cell_loop(dotted)
        if not isinstance(loop.target, ast.Name):
            raise sym.Unsupported('cell loop target is not a name')
        col = 'the_column'        # one arbitrary column: it is used as a key only
        b.bind(loop.target.id, col)
        ty = Opt(INT) if kind == 'int' else Opt(STR)
        val = sym.const(ty, 'getter_result')
        b.val, b.ty, b.col = val, ty, col
        if kind == 'int':
            b.assume(z3.Or(ty.is_none(val.z), ty.val(val.z) >= 0))      # counts and sizes are natural numbers

        def getter(interp, st, args, kwargs):
            st.emit('getter_called')
            if isinstance(b.ty, Opt):
                none = st.copy()
                none.assume(b.ty.is_none(val.z))
                yield none, None
                st.assume(z3.Not(b.ty.is_none(val.z)))
                yield st, SV(b.ty.inner, b.ty.val(val.z))

        G = Model('getter', getter)

        class Getters:
            """columns_getters[...] / file_columns_getters[...]: whichever mapping the code indexes yields the getter under contract"""
        # every mapping the body indexes with the column and then calls is the getter table
        tables = set()
        for n in ast.walk(ast.Module(body=loop.body, type_ignores=[])):
            if isinstance(n, ast.Subscript) and isinstance(n.ctx, ast.Load) and isinstance(n.value, ast.Name) \
                    and isinstance(n.slice, ast.Name) and n.slice.id == loop.target.id and n.value.id not in ('row',):
                tables.add(n.value.id)
        b.row = b.st.new_py('dict', {})
        b.bind('row', b.row)
        b.widths = b.st.new_py('dict', {})
        for t in tables:
            if 'width' in t:
                b.bind(t, b.widths)
            else:
                b.bind(t, b.st.new_py('dict', {col: G}))
        b.tables = tables
        # every other name the body reads comes from the enclosing function (the snapshot/file being listed): arbitrary
        from vf.interp import Unknown
        stored = {n.id for n in ast.walk(ast.Module(body=loop.body, type_ignores=[])) if isinstance(n, ast.Name) and isinstance(n.ctx, ast.Store)}
        for n in ast.walk(ast.Module(body=loop.body, type_ignores=[])):
            if isinstance(n, ast.Name) and isinstance(n.ctx, ast.Load) and n.id not in stored and not b.st.has(n.id):
                b.bind(n.id, Unknown('outer:' + n.id))
    return setup


def _post(prop, dotted, kind):
    def post(res):
        b = res.builder
        empty = b.me._attrs['EMPTY_TABLE_VALUE']
        n = 0
        for p in res.paths:
            if p.kind not in ('normal', 'continue'):
                res.oblige(p, f'{prop}.cell[{kind}].total[{p.kind}]', z3.BoolVal(False))
                continue
            row = p.st.store[b.row.id]
            items = list(row.items()) if isinstance(row, dict) else None
            if not items:
                res.oblige(p, f'{prop}.cell[{kind}].cell_is_filled', z3.BoolVal(False))
                continue
            n += 1
            (_, cell), = items[-1:]
            cz = sym.lift(cell, STR).z
            v = b.val.z
            if kind == 'int':
                want = z3.If(b.ty.is_none(v), z3.StringVal(empty), res.interp.uf('str_of_int', INT, STR)(b.ty.val(v)))
            else:
                want = z3.If(b.ty.is_none(v), z3.StringVal(empty), b.ty.val(v))
            # C15: the listing shows the TRUE value - a count of 0 is "0", an empty note is empty; the placeholder stands for "no value"
            # (a snapshot of another key) only
            res.oblige(p, f'{prop}.cell[{kind}].cell_shows_the_value_the_getter_returned', cz == want)
        res.oblige([], f'{prop}.cell[{kind}].paths_checked', z3.BoolVal(n >= 2))
    return post


def cell_units(prop):
    out = []
    for dotted in ('Repository.list_snapshots', 'Repository.list_files'):
        short = dotted.split('.')[-1]
        for kind in ('int', 'str'):
            out.append(Unit(f'{prop}.{short}.cell[{kind}]', REPO_PY, dotted, _setup(dotted, kind), _post(prop, f'{short}', kind),
                            node_loader=_loader(dotted), prop=prop,
                            notes='region: body of the loop that fills row[...] (extracted every run); getter under an assumed contract'))
    return out


# ---- the three time columns of list_files: each shows ITS OWN recorded instant ------------------------------------------------------
def _time_setup(which):
    def setup(b):
        me = shared.repo_self(b, props=False, cache=False)
        b.me = me
        md = b.st.new_py('dict', {f'st_{w}time_ns': sym.const(INT, f'recorded_{w}time_ns') for w in 'mca'})
        b.bind('file_data', b.st.new_py('dict', {'metadata': md, 'path': sym.const(STR, 'file_path')}))
        b.md = md
        for nm in ('snapshot_path', 'snapshot_chunks', 'snapshot_data'):
            b.bind(nm, Obj(f'<{nm}>'))
        DT = models.opaque_type('DateTime')

        def ts_to_dt(interp, st, args, kwargs):
            st.emit('ts_to_dt', metadata=args[0], key=args[1])
            dt = Obj('<datetime>', isoformat=Model('isoformat', lambda i, s, a, k: (s.emit('isoformat', kwargs=dict(k)), iter([(s, sym.fresh(STR, 'shown'))]))[1]))
            yield st, dt

        me._attrs['_metadata_ts_to_dt'] = Model('_metadata_ts_to_dt', ts_to_dt)
    return setup


def _time_post(prop, which):
    def post(res):
        b = res.builder
        for p in res.paths:
            ev = p.events('ts_to_dt')
            ok = p.kind == 'return' and len(ev) == 1 and ev[0].data['key'] == f'st_{which}time_ns' and ev[0].data['metadata'] is b.md
            # the "modified / created / accessed at" cell is computed from the recorded instant OF THAT KIND
            res.oblige(p, f'{prop}.file_time[{which}].shows_the_recorded_instant_of_its_own_kind', z3.BoolVal(bool(ok)),
                       meta={'keys_read': [str(e.data['key']) for e in ev]})
    return post


def time_getter_units(prop):
    return [Unit(f'{prop}.list_files.time_column[{w}time]', REPO_PY, f'Repository._format_file_{w}time', _time_setup(w), _time_post(prop, w), prop=prop)
            for w in 'mca']
