"""Contracts for init / unlock / add_key / _add_key / _instantiate_key (C05, C06, C14, C17)."""
from __future__ import annotations

import z3

from vf import sym, models, ops, source
from vf.sym import SV, INT, BOOL, STR, BYTES, Opt, Tup, List, Set, Dict, Ref, Cls
from vf.interp import Model, Raised, Exc, Obj, LoopSpec, PyRef
from vf.unit import Unit, Lemma
from vf.ops import CM, MethodModel, Property
from specs import shared, snapbody
from specs.shared import REPO_PY, UF, H, KDF, ENC, DEC, PROPS, PRIVATE, CIPHER, HASHER, CHUNKER, MACT, KDFT
from specs.snapbody import JV, ser, deser

SETTINGS = models.opaque_type('Settings', pytype='dict')
SETTINGS.truth = lambda z: UF('settings_truthy', SETTINGS, BOOL)(z)
CONFIG = models.opaque_type('Config', pytype='dict')
KDFCFG = models.opaque_type('KdfCfg', pytype='dict')
KDFU = models.opaque_type('UserKdf')
PATHT = models.opaque_type('KeyPath')
PATHT.lenient = True          # methods the sidecar has no model for (added by a change) return unknown state


def user_kdf(pw, salt, cfg):
    """user key derivation: KDF_user(password, params=salt) for the adapter described by cfg (assumed deterministic)"""
    return UF('KDF_user', BYTES, BYTES, KDFCFG, BYTES)(pw, salt, cfg)


def ser_private(z):
    return UF('ser_private', INT, BYTES)(z)        # serialize(private dict) as a function of the record


def ser_config(z):
    return UF('ser_config', CONFIG, BYTES)(z)


def bz(v):
    """z3 bytes term of a value that may be Opt(bytes)"""
    if isinstance(v, SV) and isinstance(v.ty, Opt):
        return v.ty.val(v.z)
    return sym.lift(v, BYTES).z


def common_env(b, unlocked=False):
    me = shared.repo_self(b, props=unlocked, cache=False)
    b.me = me
    me._settable = ('props',)

    def validate(name):
        def fn(interp, st, args, kwargs):
            bad = st.copy()
            bad.emit('validate_rejected', which=name)
            yield bad, Raised(Exc('ReplicatError'))
            st.emit('validated', which=name)
            yield st, None
        return Model(name, fn)

    def make_config(interp, st, args, kwargs):
        bad = st.copy()
        bad.emit('make_config_rejected')
        yield bad, Raised(Exc('AnyError'))        # LookupError / ReplicatError from adapters.from_config
        c = sym.fresh(CONFIG, 'config')
        st.emit('make_config', settings=kwargs.get('settings'), config=c)
        yield st, c

    def instantiate_config(interp, st, args, kwargs):
        bad = st.copy()
        bad.emit('adapter_ctor_rejected')
        yield bad, Raised(Exc('ValueError'))      # adapter constructors validate their arguments
        st.emit('instantiate_config', config=args[0])
        yield st, st.new_py('dict', {
            'chunker': sym.fresh(CHUNKER, 'chunker'), 'hasher': sym.fresh(HASHER, 'hasher'),
            'cipher': sym.fresh(Opt(CIPHER), 'cipher')})

    def props_ctor(interp, st, args, kwargs):
        vals = {'userkey': None, 'authenticator': None, 'shared_kdf': None, 'private': None}
        vals.update(kwargs)
        r = ops.new_heap(st, PROPS)
        for f, ty in PROPS.fields.items():
            st.heap.write(PROPS, f, r.z, ops.to_ty(interp, st, vals[f], ty).z)
        yield st, r

    def make_key(interp, st, args, kwargs):
        bad = st.copy()
        bad.emit('make_key_rejected')
        yield bad, Raised(Exc('AnyError'))
        private = kwargs.get('private')
        if isinstance(private, SV) and isinstance(private.ty, Opt):
            for s2, none in interp.branch(st, private.ty.is_none(private.z)):
                kw = dict(kwargs)
                kw['private'] = None if none else SV(private.ty.inner, private.ty.val(private.z))
                kw['_orig_private'] = private
                yield from ((s3, v) for s3, v in make_key(interp, s2, args, kw) if not isinstance(v, Raised))
            return
        if private is None:
            # fresh independent secrets (os.urandom: A-fresh)
            pr = ops.new_heap(st, PRIVATE)
            for f in PRIVATE.fields:
                st.heap.write(PRIVATE, f, pr.z, sym.fresh(BYTES, f'new_{f}').z)
            st.emit('fresh_private', private=pr)
        else:
            pr = private
        salt = sym.fresh(BYTES, 'kdf_salt')
        cfg = sym.fresh(KDFCFG, 'kdfcfg')
        st.emit('make_key', private_arg=kwargs.get('_orig_private', private), salt=salt, cfg=cfg, settings=kwargs.get('settings'))
        yield st, st.new_py('dict', {'kdf': cfg, 'kdf_params': salt, 'private': pr})

    def instantiate_key(interp, st, args, kwargs):
        key = ops.resolve(st, args[0])
        d = interp.deref(st, key)
        pw = ops.to_ty(interp, st, kwargs['password'], BYTES).z
        bad = st.copy()
        bad.emit('derive_failed')
        yield bad, Raised(Exc('AnyError'))        # bad KDF parameters surface here (scrypt n, r, p)
        uk = user_kdf(pw, sym.lift(d['kdf_params'], BYTES).z, d['kdf'].z)
        st.emit('derive', password=kwargs['password'], salt=d['kdf_params'], userkey=SV(BYTES, uk))
        pr = d['private']
        if isinstance(pr, SV) and pr.ty == BYTES:
            raise sym.Unsupported('instantiate_key model on an encrypted key')
        yield st, st.new_py('dict', {'userkey': SV(BYTES, uk), 'authenticator': sym.fresh(MACT, 'auth'),
                                     'shared_kdf': sym.fresh(KDFT, 'skdf'), 'private': pr})

    def replace(interp, st, args, kwargs):
        src = args[0]
        r = ops.new_heap(st, PROPS)
        for f, ty in PROPS.fields.items():
            v = kwargs[f] if f in kwargs else SV(ty, st.heap.read(PROPS, f, src.z))
            st.heap.write(PROPS, f, r.z, ops.to_ty(interp, st, v, ty).z)
        yield st, r

    def serialize(interp, st, args, kwargs):
        v = ops.resolve(st, args[0])
        if isinstance(v, SV) and v.ty == Ref(PRIVATE):
            st.emit('serialize_private', private=v)
            yield st, SV(BYTES, ser_private(v.z))
        elif isinstance(v, SV) and v.ty == CONFIG:
            yield st, SV(BYTES, ser_config(v.z))
        elif isinstance(v, PyRef) and v.kind == 'dict':
            d = interp.deref(st, v)
            if set(d) != {'kdf', 'kdf_params', 'private'}:
                raise sym.Unsupported('serialize of unexpected dict')
            pv = d['private']
            f = UF('ser_key', KDFCFG, BYTES, BYTES, BYTES)
            if not (isinstance(pv, SV) and pv.ty == BYTES):
                st.emit('plaintext_private_serialized', private=pv)
                pz = ser_private(pv.z)
            else:
                pz = pv.z
            st.emit('serialize_key', kdf=d['kdf'], kdf_params=d['kdf_params'], private=pv)
            yield st, SV(BYTES, f(d['kdf'].z, sym.lift(d['kdf_params'], BYTES).z, pz))
        elif isinstance(v, SV):
            # any other value: canonical JSON is a deterministic, injective function of the value
            f = UF('ser_' + v.ty.name(), v.ty, BYTES)
            g = UF('unser_' + v.ty.name(), BYTES, v.ty)
            st.assume(g(f(v.z)) == v.z)
            yield st, SV(BYTES, f(v.z))
        else:
            raise sym.Unsupported(f'serialize({v!r})')

    def upload(interp, st, args, kwargs):
        bad = st.copy()
        bad.emit('upload_failed', location=args[0])
        yield bad, Raised(Exc('AnyError'))
        st.emit('upload', location=args[0], data=args[1])
        yield st, None

    def download(interp, st, args, kwargs):
        bad = st.copy()
        yield bad, Raised(Exc('AnyError'))
        st.emit('download', location=args[0])
        yield st, SV(BYTES, UF('B', STR, BYTES)(sym.lift(args[0], STR).z))

    def parse_config(interp, st, args, kwargs):
        bad = st.copy()
        yield bad, Raised(Exc('AnyError'))
        r = ops.new_heap(st, PROPS)
        st.heap.write(PROPS, 'cipher', r.z, sym.fresh(Opt(CIPHER), 'cipher').z)
        for f in ('userkey', 'authenticator', 'shared_kdf', 'private'):
            st.heap.write(PROPS, f, r.z, ops.to_ty(interp, st, None, PROPS.fields[f]).z)
        st.emit('parse_config', contents=args[0])
        yield st, r

    me._attrs.update({
        '_validate_init_settings': validate('_validate_init_settings'),
        '_validate_add_key_settings': validate('_validate_add_key_settings'),
        '_make_config': Model('_make_config', make_config),
        '_instantiate_config': Model('_instantiate_config', instantiate_config),
        '_make_key': Model('_make_key', make_key),
        '_instantiate_key': Model('_instantiate_key', instantiate_key),
        'serialize': Model('serialize', serialize),
        '_upload_data': Model('_upload_data', upload),
        '_download': Model('_download', download),
        '_parse_config': Model('_parse_config', parse_config),
        'default_serialization_hook': Obj('hook'),
    })
    PROPS.consts = shared.props_consts()
    b.bind('RepositoryProps', Model('RepositoryProps', props_ctor))
    b.bind('dataclasses', Obj('dataclasses', replace=Model('dataclasses.replace', replace)))

    def json_dumps(interp, st, args, kwargs):
        v = ops.resolve(st, args[0])
        if isinstance(v, PyRef) and v.kind == 'dict':
            d = interp.deref(st, v)
            st.emit('json_dumps_key', private=d.get('private'))
            yield st, SV(STR, UF('dumps_key', STR)())
        else:
            yield st, SV(STR, UF('dumps_other', STR)())

    b.bind('json', Obj('json', dumps=Model('json.dumps', json_dumps)))

    def path_ctor(interp, st, args, kwargs):
        yield st, sym.fresh(PATHT, 'keypath')

    def write_bytes(interp, st, args, kwargs):
        st.emit('write_key_file', data=args[1])
        yield st, None

    PATHT.attrs = {'resolve': MethodModel('resolve', lambda i, s, a, k: iter([(s, a[0])])),
                   'write_bytes': MethodModel('write_bytes', write_bytes)}
    b.bind('Path', Model('Path', path_ctor))

    def default_ns(interp, st, args, kwargs):
        yield st, st.new_py('dict', dict(kwargs))

    b.bind('utils', Obj('utils', DefaultNamespace=Model('DefaultNamespace', default_ns)))


def init_setup(b):
    common_env(b)
    b.sym('password', Opt(BYTES))
    b.sym('settings', Opt(SETTINGS))
    b.sym('key_output_path', Opt(PATHT))


def key_sink_obligations(res, p, prop, label):
    """C05.sink.key / C14.key.shape at every place where a key leaves the process"""
    encs = p.events('encrypt')
    derives = p.events('derive')
    n = 0
    for e in p.st.events:
        if e.kind in ('serialize_key', 'json_dumps_key'):
            n += 1
            pv = e.data['private']
            pc = p.pc_at(e)
            ok = isinstance(pv, SV) and pv.ty == BYTES and len(encs) >= 1 and len(derives) >= 1
            res.oblige(pc, f'{prop}.{label}.key_leaves_only_with_encrypted_private', z3.BoolVal(bool(ok)))
            if ok:
                x = encs[-1]
                uk = derives[-1].data['userkey'].z
                sp = [s for s in p.events('serialize_private')]
                res.oblige(pc, f'{prop}.{label}.private_is_ENC_of_serialized_private_under_userkey', z3.And(
                    pv.z == x.data['result'].z, x.data['key'].z == uk,
                    z3.BoolVal(bool(sp)) if not sp else x.data['data'].z == ser_private(sp[-1].data['private'].z)))
    return n


def init_post(prop):
    def post(res):
        b = res.builder
        sinks = 0
        for p in res.paths:
            ups = p.events('upload')
            sig = p.kind + (':' + p.value.cls if p.kind == 'raise' else '') + f'/up{len(ups)}'
            order = [e.kind for e in p.st.events]
            # C17.init.reject_untouched: every failure precedes the only backend mutation
            if p.kind == 'raise':
                res.oblige(p, f'{prop}.init.reject_leaves_backend_untouched[{sig}]', z3.BoolVal(not ups))
            for e in ups:
                pc = p.pc_at(e)
                res.oblige(pc, f'{prop}.init.only_config_is_uploaded[{sig}]', z3.And(
                    sym.lift(e.data['location'], STR).z == z3.StringVal('config'),
                    z3.BoolVal(len(ups) == 1)))
                mc = p.events('make_config')
                res.oblige(pc, f'{prop}.init.config_upload_is_serialized_config[{sig}]',
                           z3.BoolVal(bool(mc)) if not mc else sym.lift(e.data['data'], BYTES).z == ser_config(mc[-1].data['config'].z))
                # C17.init.exercised_before_upload: on the encrypted path KDF.derive and cipher.encrypt ran first
                enc_path = any(k == 'make_key' for k in order)
                if enc_path:
                    i_up = order.index('upload')
                    res.oblige(pc, f'{prop}.init.kdf_and_cipher_exercised_before_upload[{sig}]',
                               z3.BoolVal('derive' in order[:i_up] and 'encrypt' in order[:i_up]))
            sinks += key_sink_obligations(res, p, prop, 'init')
            if p.kind == 'return':
                # encrypted repositories require a password
                pw = b.st.lookup('password')
                if any(k == 'make_key' for k in order):
                    res.oblige(p, f'{prop}.init.encrypted_needs_password[{sig}]', z3.Not(pw.ty.is_none(pw.z)))
                    mk = p.events('make_key')[-1]
                    d = p.events('derive')[-1]
                    res.oblige(p, f'{prop}.init.userkey_from_password_and_new_salt[{sig}]', z3.And(
                        bz(d.data['password']) == pw.ty.val(pw.z),
                        sym.lift(d.data['salt'], BYTES).z == mk.data['salt'].z))
                # self.props assigned last
                res.oblige(p, f'{prop}.init.props_assigned_after_upload[{sig}]',
                           z3.BoolVal('setattr' in order and order.index('setattr') > order.index('upload')))
        res.oblige([], f'{prop}.init.key_sinks_checked', z3.BoolVal(sinks >= 2))
    return post


def init_unit(prop):
    return Unit(f'{prop}.init', REPO_PY, 'Repository.init', init_setup, init_post(prop), prop=prop)


# ------------------------------------------------------------------ _add_key / add_key
def add_key_inner_setup(b):
    common_env(b)
    b.sym('password', BYTES)
    b.sym('settings', Opt(SETTINGS))
    p, enc = shared.make_props(b)
    b.bind('props', p)
    b.props = p
    # precondition (RepositoryProps.encrypt only `assert`s it; discharged at the call sites: add_key.only_for_encrypted_repository, init's
    # `if props.encrypted`): keys are made for encrypted repositories only
    b.assume(enc)
    b.sym('key_output_path', Opt(PATHT))
    # private: None (independent key: fresh secrets) or the caller's private section (shared / clone)
    b.sym('private', Opt(Ref(PRIVATE)))


def add_key_inner_post(prop):
    def post(res):
        b = res.builder
        sinks = 0
        for p in res.paths:
            sinks += key_sink_obligations(res, p, prop, 'add_key')
            order = [e.kind for e in p.st.events]
            for mk in p.events('make_key'):
                pa = mk.data['private_arg']
                pc = p.pc_at(mk)
                # C06.addkey.shared_copies_private: the caller's private object is passed through unchanged
                res.oblige(pc, f'{prop}.add_key.private_passed_through', z3.BoolVal(pa is b.st.lookup('private') or (
                    isinstance(pa, SV) and pa.z.eq(b.st.lookup('private').z))))
            for d in p.events('derive'):
                mk = p.events('make_key')
                # C06.addkey.new_password: the new private section is protected by the NEW password and a NEW salt
                res.oblige(p.pc_at(d), f'{prop}.add_key.userkey_from_new_password_and_new_salt', z3.And(
                    bz(d.data['password']) == b.st.lookup('password').z,
                    z3.BoolVal(bool(mk)) if not mk else sym.lift(d.data['salt'], BYTES).z == mk[-1].data['salt'].z))
            if p.kind == 'return':
                res.oblige(p, f'{prop}.add_key.no_backend_mutation', z3.BoolVal('upload' not in order))
        res.oblige([], f'{prop}.add_key.key_sinks_checked', z3.BoolVal(sinks >= 2))
    return post


def add_key_inner_unit(prop):
    return Unit(f'{prop}._add_key', REPO_PY, 'Repository._add_key', add_key_inner_setup, add_key_inner_post(prop), prop=prop)


def add_key_setup(b):
    common_env(b, unlocked=True)
    b.sym('password', Opt(BYTES))
    b.sym('settings', Opt(SETTINGS))
    b.sym('shared', BOOL)
    b.sym('key_output_path', Opt(PATHT))
    me = b.me
    unlocked = b.sym('is_unlocked', BOOL)
    me._attrs['_unlocked'] = unlocked

    def add_key_inner(interp, st, args, kwargs):
        st.emit('_add_key', **{k: v for k, v in kwargs.items()})
        yield st, sym.fresh(models.opaque_type('Key'), 'newkey')

    me._attrs['_add_key'] = Model('_add_key', add_key_inner)


def add_key_post(prop):
    def post(res):
        b = res.builder
        me = b.me
        n = 0
        for p in res.paths:
            for e in p.events('_add_key'):
                n += 1
                pc = p.pc_at(e)
                shared_ = b.st.lookup('shared').z
                pr = e.data['private']
                view = shared.PropsView(p.st, me.props)
                # shared=True: the caller's own private section (same shared secrets => same family);
                # shared=False: None (fresh secrets are generated by _make_key)
                if pr is None:
                    res.oblige(pc, f'{prop}.add_key.independent_key_gets_fresh_secrets', z3.Not(shared_))
                else:
                    res.oblige(pc, f'{prop}.add_key.shared_key_copies_callers_private', z3.And(
                        shared_, b.st.lookup('is_unlocked').z, pr.z == p.st.heap.read(PROPS, 'private', me.props.z)))
                pw = b.st.lookup('password')
                res.oblige(pc, f'{prop}.add_key.password_required', z3.And(
                    z3.Not(pw.ty.is_none(pw.z)), sym.lift(e.data['password'], Opt(BYTES)).z == pw.z))
                # only encrypted repositories have keys
                ep = e.data['props']
                res.oblige(pc, f'{prop}.add_key.only_for_encrypted_repository',
                           z3.Not(Opt(CIPHER).is_none(p.st.heap.read(PROPS, 'cipher', ep.z))))
            for e in p.events('parse_config'):
                from vf.interp import Unknown
                dl = [d for d in p.st.events if d.kind == 'download' and d.data['location'] == 'config']
                c = e.data['contents']
                known = dl and not isinstance(c, Unknown)
                res.oblige(p.pc_at(e), f'{prop}.add_key.settings_come_from_this_repositorys_config', z3.BoolVal(False) if not known else
                           sym.lift(c, BYTES).z == UF('B', STR, BYTES)(z3.StringVal('config')))
        res.oblige([], f'{prop}.add_key.call_sites_checked', z3.BoolVal(n >= 2))
    return post


def add_key_unit(prop):
    return Unit(f'{prop}.add_key', REPO_PY, 'Repository.add_key', add_key_setup, add_key_post(prop), prop=prop)


# ------------------------------------------------------------------ _instantiate_key (real) and unlock
ADAPTERCFG = models.opaque_type('AdapterCfg', pytype='dict')
PRIVJV = Cls('PrivateDict', {'mac': ADAPTERCFG, 'shared_kdf': ADAPTERCFG}, keyed=True)


def instantiate_key_setup(b):
    me = shared.repo_self(b, props=False, cache=False)
    b.me = me
    b.sym('password', BYTES)
    cipher = b.sym('cipher', CIPHER)
    kdfcfg = sym.const(KDFCFG, 'key_kdf')
    salt = sym.const(BYTES, 'key_kdf_params')
    enc_private = sym.const(BYTES, 'key_private_ciphertext')
    is_enc = sym.const(BOOL, 'private_is_encrypted')
    plain = b.ref('key_private_plain', PRIVJV, bind=False)
    b.kdfcfg, b.salt, b.enc_private, b.is_enc, b.plain = kdfcfg, salt, enc_private, is_enc, plain
    b.bind('key', b.st.new_py('dict', {'kdf': kdfcfg, 'kdf_params': salt, 'private': enc_private}))
    # the two shapes of key['private'] (bytes as stored / dict right after _make_key) are two units; here: bytes

    def derive(interp, st, args, kwargs):
        _, pw = args
        bad = st.copy()
        yield bad, Raised(Exc('AnyError'))
        uk = user_kdf(sym.lift(pw, BYTES).z, sym.lift(kwargs['params'], BYTES).z, st.ghost['kdf_cfg_used'].z)
        st.emit('derive', userkey=SV(BYTES, uk))
        yield st, SV(BYTES, uk)

    KDFU.attrs = {'derive': MethodModel('derive', derive)}

    def from_config(interp, st, args, kwargs):
        cfg = kwargs.get('**')
        bad = st.copy()
        yield bad, Raised(Exc('AnyError'))
        st.emit('from_config', cfg=cfg)

        def ctor(i2, s2, a2, k2):
            bad2 = s2.copy()
            yield bad2, Raised(Exc('ValueError'))
            if isinstance(cfg, SV) and cfg.ty == KDFCFG:
                s2.ghost['kdf_cfg_used'] = cfg
                yield s2, sym.fresh(KDFU, 'ukdf')
            else:
                yield s2, SV(models.opaque_type('Adapter'), UF('adapter_of', ADAPTERCFG, models.opaque_type('Adapter'))(cfg.z))
        yield st, (Model('adapter_type', ctor), sym.fresh(models.opaque_type('AdapterArgs', pytype='dict'), 'args'))

    b.bind('adapters', Obj('adapters', from_config=Model('from_config', from_config)))

    def deserialize(interp, st, args, kwargs):
        bad = st.copy()
        yield bad, Raised(Exc('JSONDecodeError'))
        z = sym.lift(args[0], BYTES).z
        st.emit('deserialize', data=SV(BYTES, z))
        r = SV(Ref(PRIVJV), UF('deser_private', BYTES, INT)(z))
        yield st, r

    me._attrs['deserialize'] = Model('deserialize', deserialize)

    def serialize_any(interp, st, args, kwargs):
        # serialize(x): a deterministic, injective function of the value (canonical JSON)
        v = ops.resolve(st, args[0])
        if not isinstance(v, SV):
            raise sym.Unsupported(f'serialize({v!r}) in _instantiate_key')
        f = UF('ser_' + v.ty.name(), v.ty, BYTES)
        g = UF('unser_' + v.ty.name(), BYTES, v.ty)
        st.assume(g(f(v.z)) == v.z)
        yield st, SV(BYTES, f(v.z))

    me._attrs['serialize'] = Model('serialize', serialize_any)


def instantiate_key_post(prop):
    def post(res):
        b = res.builder
        pw = b.st.lookup('password').z
        uk = user_kdf(pw, b.salt.z, b.kdfcfg.z)
        for p in res.paths:
            sig = p.kind + (':' + p.value.cls if p.kind == 'raise' else '')
            decs = p.events('decrypt_ok') + p.events('decrypt_failed')
            for e in decs:
                # C06.unlock.needs_matching_password: the private section is opened with KDF_user(password, salt)
                res.oblige(p.pc_at(e), f'{prop}.instantiate_key.private_opened_with_password_derived_key[{sig}]', z3.And(
                    e.data['key'].z == uk, e.data['data'].z == b.enc_private.z))
            if p.events('decrypt_failed'):
                res.oblige(p, f'{prop}.instantiate_key.wrong_password_raises[{sig}]', z3.BoolVal(p.kind == 'raise'))
            if p.kind == 'return':
                d = res.interp.deref(p.st, p.value)
                ok = p.events('decrypt_ok')
                res.oblige(p, f'{prop}.instantiate_key.returns_only_after_successful_decryption[{sig}]', z3.BoolVal(len(ok) == 1))
                if ok:
                    res.oblige(p, f'{prop}.instantiate_key.result_private_is_decrypted_section[{sig}]', z3.And(
                        d['userkey'].z == uk,
                        d['private'].z == UF('deser_private', BYTES, INT)(DEC()(b.enc_private.z, uk))))
    return post


def instantiate_key_unit(prop):
    return Unit(f'{prop}.instantiate_key', REPO_PY, 'Repository._instantiate_key', instantiate_key_setup,
                instantiate_key_post(prop), prop=prop)


def unlock_setup(b):
    common_env(b)
    b.sym('password', Opt(BYTES))
    KEYARG = models.opaque_type('KeyArg', pytype='bytes')
    b.sym('key', Opt(KEYARG))
    me = b.me

    def instantiate_key(interp, st, args, kwargs):
        bad = st.copy()
        bad.emit('instantiate_key_failed')
        yield bad, Raised(Exc('DecryptionError'))
        st.emit('instantiate_key', key=args[0], password=kwargs['password'], cipher=kwargs['cipher'])
        yield st, st.new_py('dict', {'userkey': sym.fresh(BYTES, 'uk'), 'authenticator': sym.fresh(MACT, 'auth'),
                                     'shared_kdf': sym.fresh(KDFT, 'skdf'),
                                     'private': SV(Ref(PRIVATE), z3.Int('unlocked_private'))})

    me._attrs['_instantiate_key'] = Model('_instantiate_key', instantiate_key)

    def deserialize(interp, st, args, kwargs):
        st.emit('deserialize_key')
        yield st, sym.fresh(models.opaque_type('KeyDict', pytype='dict'), 'keydict')

    me._attrs['deserialize'] = Model('deserialize', deserialize)
    b.bind('collections', Obj('collections', abc=Obj('abc', ByteString=models.TypeObj('ByteString', 'bytes'))))
    b.bind('str', models.TypeObj('str'))


def unlock_post(prop):
    def post(res):
        b = res.builder
        me = b.me
        n = 0
        for p in res.paths:
            sets = [e for e in p.st.events if e.kind == 'setattr' and e.data['name'] == 'props']
            sig = p.kind + (':' + p.value.cls if p.kind == 'raise' else '')
            for e in sets:
                n += 1
                pc = p.pc_at(e)
                v = e.data['value']
                enc = z3.Not(Opt(CIPHER).is_none(p.st.heap.read(PROPS, 'cipher', v.z)))
                ik = p.events('instantiate_key')
                pw, key = b.st.lookup('password'), b.st.lookup('key')
                # C06: an encrypted repository is unlocked only through a successful _instantiate_key with
                # the caller's password and key
                res.oblige(pc, f'{prop}.unlock.encrypted_needs_successful_key_instantiation[{sig}]',
                           z3.Implies(enc, z3.And(z3.BoolVal(len(ik) == 1), z3.Not(pw.ty.is_none(pw.z)), z3.Not(key.ty.is_none(key.z)))))
                if ik:
                    res.oblige(pc, f'{prop}.unlock.password_forwarded[{sig}]',
                               sym.lift(ik[0].data['password'], Opt(BYTES)).z == pw.z)
                # data-structure invariant of RepositoryProps established here (used by every other unit)
                h = p.st.heap
                wf = z3.Implies(enc, z3.And(
                    z3.Not(Opt(BYTES).is_none(h.read(PROPS, 'userkey', v.z))),
                    z3.Not(Opt(MACT).is_none(h.read(PROPS, 'authenticator', v.z))),
                    z3.Not(Opt(KDFT).is_none(h.read(PROPS, 'shared_kdf', v.z))),
                    z3.Not(Opt(Ref(PRIVATE)).is_none(h.read(PROPS, 'private', v.z)))))
                res.oblige(pc, f'{prop}.unlock.props_well_formed[{sig}]', wf)
            if p.events('instantiate_key_failed'):
                res.oblige(p, f'{prop}.unlock.failed_key_never_unlocks[{sig}]', z3.BoolVal(not sets and p.kind == 'raise'))
            if (p.kind == 'raise' and p.value.cls == 'ReplicatError' and p.events('parse_config')
                    and not p.events('instantiate_key') and not p.events('instantiate_key_failed')):
                # unlock refuses WITHOUT trying the key only when the password or the key is missing: every password init / add_key
                # accept (anything but None - the empty string included) is tried against the key
                pw, key = b.st.lookup('password'), b.st.lookup('key')
                res.oblige(p, f'{prop}.unlock.refused_untried_only_if_password_or_key_is_missing[{sig}]',
                           z3.Or(pw.ty.is_none(pw.z), key.ty.is_none(key.z)))
            for e in p.events('parse_config'):
                # whether the repository is encrypted (and with what) is read from THIS repository's `config` object, fetched from the
                # backend by this call - not from a copy kept elsewhere (another repository's config would switch encryption off)
                dl = [d for d in p.st.events if d.kind == 'download' and d.data['location'] == 'config']
                from vf.interp import Unknown
                c = e.data['contents']
                known = dl and not isinstance(c, Unknown)
                res.oblige(p.pc_at(e), f'{prop}.unlock.settings_come_from_this_repositorys_config[{sig}]', z3.BoolVal(False) if not known else
                           sym.lift(c, BYTES).z == UF('B', STR, BYTES)(z3.StringVal('config')))
        res.oblige([], f'{prop}.unlock.assignments_checked', z3.BoolVal(n >= 2))
    return post


def unlock_unit(prop):
    return Unit(f'{prop}.unlock', REPO_PY, 'Repository.unlock', unlock_setup, unlock_post(prop), prop=prop)


# ------------------------------------------------------------------ _make_key: which generated secret goes where
def make_key_setup(variant):
    """variants of `settings`: None / {} / user KDF named like the shared one (blake2b) / private given"""
    def setup(b):
        me = shared.repo_self(b, props=False, cache=False)
        for nm in ('DEFAULT_USER_KDF_NAME', 'DEFAULT_SHARED_KDF_NAME', 'DEFAULT_MAC_NAME'):
            me._attrs[nm] = source.class_attr(REPO_PY, 'Repository', nm).value
        b.me = me
        counter = {'n': 0}

        def gen(kind, owner):
            def m(interp, st, args, kwargs):
                counter['n'] += 1
                r = sym.fresh(BYTES, f'{kind}_{counter["n"]}')
                st.emit('generate', gen=kind, owner=owner, value=r)
                yield st, r
            return Model(kind, m)

        key_bytes = sym.const(INT, 'cipher_key_bytes')
        b.bind('cipher', Obj('cipher', key_bytes=key_bytes, generate_key=gen('generate_key', 'cipher')))
        b.bind('chunker', Obj('chunker', generate_chunking_params=gen('generate_chunking_params', 'chunker')))
        types = {}

        def type_for(name):
            if name not in types:
                def ctor(interp, st, args, kwargs, name=name):
                    counter['n'] += 1
                    inst = f'{name}#{counter["n"]}'
                    st.emit('adapter_instance', name=name, instance=inst, kwargs=dict(kwargs))
                    yield st, Obj(inst, generate_derivation_params=gen('generate_derivation_params', inst),
                                  generate_mac_params=gen('generate_mac_params', inst))
                t = Model(name, ctor)
                t.attrs = {'__name__': name}
                types[name] = t
            return types[name]

        def from_config(interp, st, args, kwargs):
            kw = dict(kwargs)
            name = kw.pop('name')
            st.emit('from_config', name=name, kwargs=dict(kw))
            yield st, (type_for(name), st.new_py('dict', kw))

        b.bind('adapters', Obj('adapters', from_config=Model('from_config', from_config)))
        if variant == 'none':
            b.bind('settings', None)
        elif variant == 'empty':
            b.bind('settings', b.st.new_py('dict', {}))
        else:
            kdf = b.st.new_py('dict', {'name': 'blake2b'})
            enc = b.st.new_py('dict', {'kdf': kdf})
            b.bind('settings', b.st.new_py('dict', {'encryption': enc}))
        if variant == 'private_given':
            b.bind('private', sym.const(models.opaque_type('GivenPrivate'), 'given_private'))
        else:
            b.bind('private', None)
    return setup


def make_key_post(prop, variant):
    def post(res):
        n = 0
        for p in res.paths:
            if p.kind != 'return':
                res.oblige(p, f'{prop}.make_key[{variant}].total', z3.BoolVal(False))
                continue
            n += 1
            key = res.interp.deref(p.st, ops.resolve(p.st, p.value))
            gens = p.events('generate')
            by_value = {id(e.data['value']): e for e in gens}
            ok_shape = isinstance(key, dict) and set(key) == {'kdf', 'kdf_params', 'private'}
            res.oblige(p, f'{prop}.make_key[{variant}].key_has_exactly_kdf_kdf_params_private', z3.BoolVal(ok_shape))
            if not ok_shape:
                continue
            pub = key['kdf_params']
            e_pub = by_value.get(id(pub))
            # the readable salt of the user KDF is a value generated FOR IT ALONE by the user KDF's own generator
            ok_pub = e_pub is not None and e_pub.data['gen'] == 'generate_derivation_params'
            uses = 1 if ok_pub else 0
            priv = key['private']
            if variant == 'private_given':
                res.oblige(p, f'{prop}.make_key[{variant}].given_private_section_passes_through', z3.BoolVal(
                    isinstance(priv, SV) and priv is res.builder.st.lookup('private') and len(gens) == 1 and not p.events('opaque_item_store')))
            else:
                pd = res.interp.deref(p.st, ops.resolve(p.st, priv)) if priv is not None else None
                want = {'shared_key': 'generate_key', 'shared_kdf_params': 'generate_derivation_params', 'mac_params': 'generate_mac_params',
                        'chunker_params': 'generate_chunking_params'}
                ok_priv = isinstance(pd, dict) and set(pd) == set(want) | {'shared_kdf', 'mac'}
                if ok_priv:
                    origins = []
                    for k, kind in want.items():
                        e = by_value.get(id(pd[k]))
                        ok_priv = ok_priv and e is not None and e.data['gen'] == kind
                        origins.append(id(pd[k]))
                    # every secret of the private section comes from its own generator call; none of them is the public salt
                    ok_priv = ok_priv and len(set(origins)) == 4 and id(pub) not in origins
                    # ... and the two KDF salts come from two different adapter instances' calls
                    if ok_priv and e_pub is not None:
                        ok_priv = by_value[id(pd['shared_kdf_params'])] is not e_pub
                res.oblige(p, f'{prop}.make_key[{variant}].private_secrets_each_from_their_own_generator_call', z3.BoolVal(bool(ok_priv)))
            res.oblige(p, f'{prop}.make_key[{variant}].public_salt_is_generated_for_the_user_kdf_alone', z3.BoolVal(bool(ok_pub)))
            kdf = res.interp.deref(p.st, ops.resolve(p.st, key['kdf']))
            res.oblige(p, f'{prop}.make_key[{variant}].public_kdf_description_holds_parameters_only', z3.BoolVal(
                isinstance(kdf, dict) and 'name' in kdf and not any(isinstance(v, SV) and v.ty == BYTES for v in kdf.values())))
        res.oblige([], f'{prop}.make_key[{variant}].paths_checked', z3.BoolVal(n >= 1))
    return post


def make_key_units(prop):
    return [Unit(f'{prop}.make_key[{v}]', REPO_PY, 'Repository._make_key', make_key_setup(v), make_key_post(prop, v), prop=prop)
            for v in ('none', 'empty', 'user_kdf_blake2b', 'private_given')]


# ------------------------------------------------------------------ _make_config / _instantiate_config: settings -> stored config -> adapters
def _cfg_env(b):
    me = shared.repo_self(b, props=False, cache=False)
    for nm in ('DEFAULT_HASHER_NAME', 'DEFAULT_CHUNKER_NAME', 'DEFAULT_CIPHER_NAME'):
        me._attrs[nm] = source.class_attr(REPO_PY, 'Repository', nm).value
    b.me = me
    types = {}
    counter = {'n': 0}

    def type_for(name):
        if name not in types:
            def ctor(interp, st, args, kwargs, name=name):
                counter['n'] += 1
                st.emit('adapter_instance', name=name, kwargs=dict(kwargs), nargs=len(args))
                return iter([(st, Obj(f'{name}#{counter["n"]}', adapter_name=name))])
            t = Model(name, ctor)
            t.attrs = {'__name__': name}
            types[name] = t
        return types[name]

    def from_config(interp, st, args, kwargs):
        kw = dict(kwargs)
        name = kw.pop('name', None)
        st.emit('from_config', name=name, kwargs=dict(kw), nargs=len(args))
        if not isinstance(name, str):
            raise sym.Unsupported('adapter name not concrete')
        # the adapter module fills in the defaults of the named adapter: modelled as "the user's parameters plus a marker"
        yield st, (type_for(name), st.new_py('dict', dict(kw, **{'<defaults of %s>' % name: True})))

    kinds = {k: Obj(f'<adapters.{k}>', kind=k, __name__=k) for k in ('HashAdapter', 'ChunkerAdapter', 'CipherAdapter', 'KDFAdapter', 'MACAdapter')}
    b.bind('adapters', Obj('adapters', from_config=Model('from_config', from_config), **kinds))
    b.bind('exceptions', shared.EXCEPTIONS)

    def issubclass_(interp, st, args, kwargs):
        t, e = args
        if not (isinstance(t, Model) and isinstance(e, Obj) and 'kind' in e._attrs):
            raise sym.Unsupported('issubclass of something else')
        # the REAL class hierarchy of adapters.py
        ok = e._attrs['kind'] in source.class_mro(shared.ADAPTERS_PY, t.name)
        st.emit('kind_check', adapter=t.name, expected=e._attrs['kind'], result=ok)
        yield st, ok

    b.bind('issubclass', Model('issubclass', issubclass_))
    b.type_for = type_for


def make_config_setup(variant):
    def setup(b):
        _cfg_env(b)
        mk = b.st.new_py
        if variant == 'none':
            b.bind('settings', None)
        elif variant == 'plain':
            b.bind('settings', mk('dict', {'hashing': mk('dict', {'name': 'sha2', 'bits': 256}), 'chunking': mk('dict', {'min_length': 8, 'max_length': 64}),
                                            'encryption': None}))
        elif variant == 'encrypted_defaults':
            # encryption requested with every default spelled as an EMPTY mapping: still an encrypted repository
            b.bind('settings', mk('dict', {'encryption': mk('dict', {})}))
        elif variant.startswith('wrong_kind:'):
            section, name = variant.split(':')[1:]
            if section == 'cipher':
                b.bind('settings', mk('dict', {'encryption': mk('dict', {'cipher': mk('dict', {'name': name})})}))
            else:
                b.bind('settings', mk('dict', {section: mk('dict', {'name': name}), 'encryption': None}))
        else:
            b.bind('settings', mk('dict', {'encryption': mk('dict', {'cipher': mk('dict', {'name': 'chacha20_poly1305'}), 'kdf': mk('dict', {'n': 4})})}))
    return setup


def make_config_post(prop, variant):
    def post(res):
        me = res.builder.me
        for p in res.paths:
            if variant.startswith('wrong_kind:'):
                # an adapter that exists but is of another kind (a cipher named as the hash, a hash as the chunker ...) is REJECTED with the
                # user-facing error: init stops before anything is uploaded (D17: such a config was stored and no command could use it)
                res.oblige(p, f'{prop}.make_config[{variant}].adapter_of_another_kind_is_rejected', z3.BoolVal(p.kind == 'raise' and p.value.cls == 'ReplicatError'))
                continue
            if p.kind != 'return':
                res.oblige(p, f'{prop}.make_config[{variant}].total', z3.BoolVal(False))
                continue
            cfg = res.interp.deref(p.st, ops.resolve(p.st, p.value))
            fc = p.events('from_config')
            want_enc = variant != 'plain'
            ok = isinstance(cfg, dict) and set(cfg) == ({'hashing', 'chunking', 'encryption'} if want_enc else {'hashing', 'chunking'})
            # `encryption: None` means an UNENCRYPTED repository: no encryption section at all; otherwise exactly a cipher section
            res.oblige(p, f'{prop}.make_config[{variant}].sections', z3.BoolVal(bool(ok)))
            if not ok:
                continue
            sec = lambda d: res.interp.deref(p.st, ops.resolve(p.st, d))
            h, c = sec(cfg['hashing']), sec(cfg['chunking'])
            exp_h = {'none': me.get('DEFAULT_HASHER_NAME'), 'plain': 'sha2', 'encrypted': me.get('DEFAULT_HASHER_NAME'), 'encrypted_defaults': me.get('DEFAULT_HASHER_NAME')}[variant]
            exp_c = me.get('DEFAULT_CHUNKER_NAME')
            good = (isinstance(h, dict) and h.get('name') == exp_h and ('<defaults of %s>' % exp_h) in h
                    and isinstance(c, dict) and c.get('name') == exp_c and ('<defaults of %s>' % exp_c) in c)
            if variant == 'plain':
                good = good and h.get('bits') == 256 and c.get('min_length') == 8 and c.get('max_length') == 64
            if want_enc:
                e = sec(cfg['encryption'])
                ci = sec(e['cipher']) if isinstance(e, dict) and set(e) == {'cipher'} else None
                exp_ci = 'chacha20_poly1305' if variant == 'encrypted' else me.get('DEFAULT_CIPHER_NAME')
                # the stored config holds the cipher only: the KDF belongs to the key, not to the repository
                good = good and isinstance(ci, dict) and ci.get('name') == exp_ci and ('<defaults of %s>' % exp_ci) in ci
            # each section is the named adapter's full parameter set (user values over the adapter's defaults) plus its name;
            # a missing name means the documented default adapter
            res.oblige(p, f'{prop}.make_config[{variant}].sections_are_adapter_parameters_plus_name', z3.BoolVal(bool(good)))
            res.oblige(p, f'{prop}.make_config[{variant}].one_adapter_lookup_per_section', z3.BoolVal(len(fc) == (3 if want_enc else 2)))
    return post


def instantiate_config_setup(variant):
    def setup(b):
        _cfg_env(b)
        mk = b.st.new_py
        cfg = {'hashing': mk('dict', {'name': 'sha3', 'bits': 256}), 'chunking': mk('dict', {'name': 'gclmulchunker', 'min_length': 8, 'max_length': 64})}
        if variant == 'encrypted':
            cfg['encryption'] = mk('dict', {'cipher': mk('dict', {'name': 'aes_gcm', 'key_bits': 128})})
        b.bind('config', mk('dict', cfg))
    return setup


def instantiate_config_post(prop, variant):
    def post(res):
        for p in res.paths:
            if p.kind != 'return':
                res.oblige(p, f'{prop}.instantiate_config[{variant}].total', z3.BoolVal(False))
                continue
            out = res.interp.deref(p.st, ops.resolve(p.st, p.value))
            ok = isinstance(out, dict) and set(out) == {'chunker', 'hasher', 'cipher'}
            if ok:
                nm = lambda v: getattr(v, '_attrs', {}).get('adapter_name') if isinstance(v, Obj) else None
                ok = nm(out['chunker']) == 'gclmulchunker' and nm(out['hasher']) == 'sha3'
                # no encryption section <=> no cipher (RepositoryProps.encrypted is `cipher is not None`)
                ok = ok and ((nm(out['cipher']) == 'aes_gcm') if variant == 'encrypted' else out['cipher'] is None)
                inst = {e.data['name']: e.data['kwargs'] for e in p.events('adapter_instance')}
                ok = ok and inst.get('sha3', {}).get('bits') == 256 and inst.get('gclmulchunker', {}).get('min_length') == 8
                if variant == 'encrypted':
                    ok = ok and inst.get('aes_gcm', {}).get('key_bits') == 128
            res.oblige(p, f'{prop}.instantiate_config[{variant}].adapters_built_from_their_own_sections', z3.BoolVal(bool(ok)))
    return post


def config_units(prop):
    return [Unit(f'{prop}.make_config[{v}]', REPO_PY, 'Repository._make_config', make_config_setup(v), make_config_post(prop, v), prop=prop)
            for v in ('none', 'plain', 'encrypted', 'encrypted_defaults', 'wrong_kind:hashing:aes_gcm', 'wrong_kind:chunking:sha2', 'wrong_kind:cipher:blake2b', 'wrong_kind:hashing:gclmulchunker')] + [
            Unit(f'{prop}.instantiate_config[{v}]', REPO_PY, 'Repository._instantiate_config', instantiate_config_setup(v),
                 instantiate_config_post(prop, v), prop=prop) for v in ('plain', 'encrypted')]


# ------------------------------------------------------------------ settings validation: which dictionaries are accepted at all
_VALIDATE_CASES = {
    # name: (object, accepted?)
    'ok': (lambda mk: {'hashing': mk('dict', {}), 'encryption': None}, True),
    'empty': (lambda mk: {}, True),
    'extra_key': (lambda mk: {'hashing': mk('dict', {}), 'hashin': mk('dict', {})}, False),
    'wrong_type': (lambda mk: {'hashing': mk('list', [])}, False),
    'none_where_mapping_required': (lambda mk: {'hashing': None}, False),
    'scalar_for_optional': (lambda mk: {'encryption': 1}, False),
}


def validate_settings_setup(case):
    def setup(b):
        b.me = shared.repo_self(b, props=False, cache=False)
        mk = b.st.new_py
        M = models.TypeObj('Mapping')
        M.attrs = {'__name__': 'Mapping'}
        N = models.TypeObj('NoneType')
        N.attrs = {'__name__': 'NoneType'}
        b.bind('schema', mk('dict', {'hashing': M, 'chunking': M, 'encryption': (M, N)}))
        b.bind('obj', mk('dict', _VALIDATE_CASES[case][0](mk)))
    return setup


def validate_settings_post(prop, case):
    def post(res):
        accepted = _VALIDATE_CASES[case][1]
        for p in res.paths:
            # accepted <=> every key is in the schema and every value is an instance of the schema's type(s); a rejection is the
            # user-facing ReplicatError (not a KeyError/TypeError surfacing later, after the backend has been touched)
            good = (p.kind in ('return', 'normal')) if accepted else (p.kind == 'raise' and p.value.cls == 'ReplicatError')
            res.oblige(p, f'{prop}.validate_settings[{case}].accepts_exactly_schema_conforming', z3.BoolVal(bool(good)))
    return post


def validate_wrappers_setup(which, variant):
    def setup(b):
        me = shared.repo_self(b, props=False, cache=False)
        b.me = me
        mk = b.st.new_py

        def validate(interp, st, args, kwargs):
            schema = interp.deref(st, ops.resolve(st, args[0]))
            st.emit('validate', keys=sorted(schema) if isinstance(schema, dict) else None, obj=args[1])
            yield st, None
        me._attrs['_validate_settings'] = Model('_validate_settings', validate)
        enc = None if variant == 'unencrypted' else mk('dict', {'kdf': mk('dict', {})})
        b.enc = enc
        b.settings = mk('dict', {'encryption': enc})
        b.bind('settings', b.settings)
    return setup


def validate_wrappers_post(prop, which, variant):
    def post(res):
        b = res.builder
        for p in res.paths:
            evs = p.events('validate')
            if which == 'init':
                want = [(['chunking', 'encryption', 'hashing'], b.settings)] + ([(['cipher', 'kdf'], b.enc)] if variant == 'encrypted' else [])
            else:
                want = [(['encryption'], b.settings), (['kdf'], b.enc)]
            got = [(e.data['keys'], e.data['obj']) for e in evs]
            ok = p.kind in ('return', 'normal') and len(got) == len(want) and all(g[0] == w[0] and g[1] is w[1] or (g[0] == w[0] and ops.resolve(p.st, g[1]) is ops.resolve(p.st, w[1])) for g, w in zip(got, want))
            # both levels of the settings are validated, each against the documented key set, and the nested one is the
            # `encryption` section itself
            res.oblige(p, f'{prop}.validate_{which}_settings[{variant}].both_levels_against_documented_keys', z3.BoolVal(bool(ok)))
    return post


def validate_units(prop):
    out = [Unit(f'{prop}.validate_settings[{c}]', REPO_PY, 'Repository._validate_settings', validate_settings_setup(c), validate_settings_post(prop, c), prop=prop)
           for c in _VALIDATE_CASES]
    out += [Unit(f'{prop}.validate_init_settings[{v}]', REPO_PY, 'Repository._validate_init_settings', validate_wrappers_setup('init', v),
                 validate_wrappers_post(prop, 'init', v), prop=prop) for v in ('unencrypted', 'encrypted')]
    out += [Unit(f'{prop}.validate_add_key_settings', REPO_PY, 'Repository._validate_add_key_settings', validate_wrappers_setup('add_key', 'encrypted'),
                 validate_wrappers_post(prop, 'add_key', 'encrypted'), prop=prop)]
    return out


# ------------------------------------------------------------------ adapters.from_config: name -> (adapter type, FULL parameter set)
ADAPTERS_PY = 'replicat/utils/adapters.py'


def from_config_setup(variant):
    def setup(b):
        mk = b.st.new_py
        b.adapter = Obj('<adapter type sha2>')
        # the registry is whatever module-level table from_config looks the name up in (found by that use, not by its spelling)
        import ast as _ast
        table = '_adapters_mapping'
        for n in _ast.walk(b.node):
            if isinstance(n, _ast.Subscript) and isinstance(n.value, _ast.Name) and isinstance(n.slice, _ast.Name) and n.slice.id == 'name':
                table = n.value.id
            if isinstance(n, _ast.Call) and isinstance(n.func, _ast.Attribute) and n.func.attr == 'get' and isinstance(n.func.value, _ast.Name) \
                    and n.args and isinstance(n.args[0], _ast.Name) and n.args[0].id == 'name':
                table = n.func.value.id
        b.bind(table, mk('dict', {'sha2': b.adapter, 'scrypt': Obj('<adapter type scrypt>')}))
        b.bind('name', 'sha2' if variant != 'unknown_name' else 'sha4')
        b.user = {'bits': Obj('<user bits>')}
        b.bind('kwargs', mk('dict', dict(b.user)))
        b.arguments = Obj('<bound arguments>')

        def apply_defaults(interp, st, a, kw):
            st.emit('apply_defaults')
            yield st, None

        def arguments(interp, st, v):
            st.emit('arguments_read')
            yield st, b.arguments

        bound = Obj('<bound>', apply_defaults=Model('apply_defaults', apply_defaults), arguments=ops.Property(arguments))

        def bind(interp, st, a, kw):
            st.emit('bind', args=list(a), kwargs=dict(kw))
            if variant == 'bad_parameters':
                yield st, Raised(Exc('TypeError'))
            else:
                yield st, bound

        def signature(interp, st, a, kw):
            st.emit('signature', of=a[0] if a else None)
            yield st, Obj('<signature>', bind=Model('bind', bind))

        b.bind('inspect', Obj('inspect', signature=Model('signature', signature)))
        b.bind('exceptions', shared.EXCEPTIONS)
    return setup


def from_config_post(prop, variant):
    def post(res):
        b = res.builder
        for p in res.paths:
            if variant == 'unknown_name':
                # an unknown adapter is a LookupError (init reports it before touching the backend)
                res.oblige(p, f'{prop}.from_config[{variant}].unknown_adapter_is_a_lookup_error', z3.BoolVal(p.kind == 'raise' and p.value.cls == 'LookupError'))
                continue
            if variant == 'bad_parameters':
                res.oblige(p, f'{prop}.from_config[{variant}].unknown_parameter_is_a_replicat_error', z3.BoolVal(p.kind == 'raise' and p.value.cls == 'ReplicatError'))
                continue
            kinds = [e.kind for e in p.st.events if e.kind in ('signature', 'bind', 'apply_defaults', 'arguments_read')]
            ok = p.kind == 'return' and kinds == ['signature', 'bind', 'apply_defaults', 'arguments_read']
            if ok:
                v = p.value if isinstance(p.value, tuple) else res.interp.deref(p.st, ops.resolve(p.st, p.value))
                ok = isinstance(v, (tuple, list)) and len(v) == 2 and v[0] is b.adapter and v[1] is b.arguments
                sg, bd = p.events('signature')[0], p.events('bind')[0]
                ok = ok and sg.data['of'] is b.adapter and not bd.data['args'] and set(bd.data['kwargs']) == {'bits'} and bd.data['kwargs']['bits'] is b.user['bits']
            # the adapter registered under that name, with the user's parameters bound to ITS signature and the defaults filled in BEFORE
            # the parameter set is taken (so the stored config is complete and does not depend on later default changes)
            res.oblige(p, f'{prop}.from_config[{variant}].named_adapter_with_its_full_parameter_set', z3.BoolVal(bool(ok)))
    return post


def from_config_units(prop):
    return [Unit(f'{prop}.from_config[{v}]', ADAPTERS_PY, 'from_config', from_config_setup(v), from_config_post(prop, v), prop=prop)
            for v in ('ok', 'unknown_name', 'bad_parameters')]
