"""C15 - Restore and the listings select exactly what the filters and timestamps say."""
from specs import misc, restore, snapbody, gc, snapshot, cells

LEVEL = 'proof'
UNITS = [restore.select_unit('C15'), restore.plan_unit('C15'), snapbody.download_snapshot_unit('C15'), gc.delete_unit('C15'), snapbody.compile_unit('C15')] + snapbody.load_units('C15') + misc.ts_to_dt_units('C15') + misc.bytes_to_human_units('C15') + [snapshot.tail_unit('C15')]
UNITS = UNITS + cells.cell_units('C15') + cells.time_getter_units('C15')
from specs import families as _families
UNITS = _families.with_families('C15', UNITS)
BOUNDED = [{'name': 'C15.e2e', 'script': 'bounded/c15_e2e.py', 'timeout': 900, 'bound': 'the scripted history under a stepped UTC clock in three daylight-saving nights (POSIX TZ rules: CET spring / autumn, EST spring); 3 (thorough: 40) seeded histories of 3-5 snapshots over 4 paths that appear/change/disappear x 6 snapshot filters x 6 file filters (incl. patterns differing from the names only in letter case); list-snapshots and list-files rows (names, counts, humanised sizes, digests, notes, order); delete of a printed / unknown name; the scripted history ends with a snapshot of an EMPTY tree with an EMPTY note (count 0 and empty note are shown as such)'}]
TRUSTED = [
    'vf symbolic executor (/verif/vf): encoding of the Python subset (DESIGN 2.2)',
    'z3 5.1 (API + z3-new CLI), cvc5 1.0.3 (strings)',
]
ASSUMPTIONS = ['list.sort(key, reverse) is a permutation ordered by key (assumed, audited)', 'lexicographic order of str(datetime.utcnow()) is chronological (assumed; audited on boundary pairs in the thorough tier)', 'snapshots have distinct timestamps (premise)', 're.search is a deterministic function of (pattern, string)', 'listing rows: the cell put into row[column] is under contract (specs/cells.py: loop body extracted every run) with the column getters under an ASSUMED contract (an arbitrary optional natural number / optional string comes back); loading, sorting, header and ljust/center padding of the finished table are not under contract (bounded stand-in C15.e2e)']
MANIFEST = {
    'text': 'Deductive proof that restore plans only readable bodies, newest first, that a path is planned at its first (newest) occurrence only if it matches the file filter and later occurrences touch nothing, that the snapshot filter is applied to the printed name, and that delete compares the same name and refuses unknown names before any deletion.',
    'note': 'Trusted: vf engine, SMT solvers. Of the listings, the value placed in each cell is proved (getters assumed); padding / header / order of rows are bounded only.',
    'technique': 'contract-based deductive verification: sidecar contracts + loop invariants on the real functions, VCs by symbolic execution of the AST, discharged by z3/cvc5',
    'design_ref': 'DESIGN.md 6/C15',
}
