"""C15 - Restore and the listings select exactly what the filters and timestamps say."""
from specs import restore, snapbody, gc

LEVEL = 'proof'
UNITS = [restore.select_unit('C15'), restore.plan_unit('C15'), snapbody.download_snapshot_unit('C15'), gc.delete_unit('C15')]
BOUNDED = []
TRUSTED = []
ASSUMPTIONS = []
