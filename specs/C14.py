"""C14 - What replicat writes follows the documented repository format."""
from specs import restore, snapshot, snapbody, loc, keys, misc, c01_lemmas

LEVEL = 'proof'
UNITS = loc.loc_units('C14')[:2] + loc.parts_units('C14') + [loc.chunk_loc_unit('C14'), snapshot.producer_unit('C14'), snapshot.worker_unit('C14'), snapshot.chunk_done_unit('C14'), snapshot.tail_unit('C14'),
         snapbody.encrypt_body_unit('C14'), snapbody.decrypt_body_unit('C14'), snapbody.reader_inverse_lemma('C14'), keys.init_unit('C14'), c01_lemmas.lemmas('C14'), restore.plan_unit('C14')] + misc.json_units('C14') + misc.metadata_units('C14') + misc.primitive_units('C14') + misc.hashlib_adapter_units('C14') + misc.ts_to_dt_units('C14') + misc.aead_units('C14') + misc.aead_ctor_units('C14') + keys.config_units('C14') + keys.from_config_units('C14')
from specs import families as _families
UNITS = _families.with_families('C14', UNITS)
BOUNDED = [{'name': 'C14.reference', 'script': 'bounded/c14_reference.py', 'timeout': 900, 'args': {'prop': 'C14'}, 'bound': 'independent reader/writer of the documented format (hashlib, cryptography, json, base64 only): 3 (thorough: 5) configurations (ciphers, hashes, chunk sizes) x 6 files incl. empty/duplicate, replicat writes -> reference reads names, keys, tables, ranges (tiling), digests; reference writes (encrypted/plain x current/pre-1.3 metadata) -> replicat restores, lists; one configuration with a 20 MiB file, a 1 MiB + 1 file, a 7-byte file and an empty file at chunk sizes 32..64 KiB (several hundred chunks complete while the file is still being read); file names that are not valid UTF-8 (Latin-1 bytes) and non-ASCII UTF-8 among the reference files (strict-UTF-8 JSON reader)'}]
TRUSTED = [
    'vf symbolic executor (/verif/vf): encoding of the Python subset (DESIGN 2.2)',
    'z3 5.1 (API + z3-new CLI), cvc5 1.0.3 (strings)',
]
ASSUMPTIONS = ['the "independent reader" is the set of spec functions written from the README/property text (chunk_path_spec, snapshot_path_spec, name/tag scheme, body scheme, key scheme)', 'json.dumps/loads inverse on the JSON domain with the repo hooks; base64 inverse', 'A-aead correctness']
MANIFEST = {
    'text': 'Deductive proof that every writer function returns the documented spec term (names from keyed MACs of digests, data/<tag[0:2]>/<tag[2:4]>/<tag[4:]>-<name>, chunk key from shared key and digest, snapshot = shared chunk table + private data, bytes tagged {"!b": base64}), that recorded ranges tile each file, that the reader inverts the writer, and that the pre-1.3 metadata variant is handled.',
    'note': 'Trusted: vf engine, SMT solvers; json/base64/crypto as uninterpreted functions with inverse axioms.',
    'technique': 'contract-based deductive verification: sidecar contracts + loop invariants on the real functions, VCs by symbolic execution of the AST, discharged by z3/cvc5',
    'design_ref': 'DESIGN.md 6/C14',
}
