"""C09 - Snapshot and restore do not depend on thread or I/O scheduling."""
from specs import conc, snapshot

LEVEL = 'proof'
UNITS = conc.units('C09') + [snapshot.producer_unit('C09'), snapshot.run_unit('C09'), snapshot.producer_start_unit('C09'), snapshot.locals_unit('C09')]
from specs import families as _families
UNITS = _families.with_families('C09', UNITS)
BOUNDED = [
    {'name': 'C09.sched', 'script': 'bounded/c09_sched.py', 'timeout': 900,
     'bound': '3 file sets x N in {1,2,3} x {sync backend in executor threads, coroutine backend} x 2 (thorough: 16) seeds of random per-call '
              'latencies (permuted completion orders) + restore locks replaced by GIL-yielding locks; one injected permanent failure per configuration; '
              'oracle: same restored bytes as the files, no spurious error, outstanding transfers <= N, all slots free after quiescence; one failing download of a restore while its siblings hold their slots and further loaders wait (sync and async backend, concurrency 1 and 2): restore ends with that error and all slots return; a timer thread reports commands that block the event loop itself'},
]
TRUSTED = [
    'vf symbolic executor (/verif/vf)', 'z3 5.1',
]
ASSUMPTIONS = [
    'NOT APPLICABLE PART: absence of hangs, termination of the worker polling loop, and equality with a sequential run under every preemption are schedule properties; contracts on sequential units cannot enumerate schedules. Only the slot accounting, the lock discipline and the order-independence of the written data are proved; the rest is the labelled bounded stand-in C09.sched',
    'asyncio.PriorityQueue.get blocks while empty and hands each slot to one waiter; threading.Lock is mutual exclusion; each `with lock` block is an atomic section',
    'files_metadata[path] is read unlocked at the top of _write_chunk_ref: stable because the entry is popped only after every write future of that path completed (not demanded by the lock rule)',
    'state.files is appended by the producer thread while _chunk_done bisects it: argued by monotone growth (C01 assumptions), not proved',
]
MANIFEST = {
    'text': 'Deductive proof of the two contract-shaped sub-claims for all paths: (1) every backend transfer issued by Repository happens while a connection slot is held and both slot context managers return the slot on every exit path, so at most N transfers are outstanding and all slots are free after success or failure; (2) restore\'s shared bookkeeping is touched only under its lock, the completion test and the metadata pop share one critical section, file parts are written only under the per-file lock, and refs of one file write disjoint ranges.',
    'note': 'Hang-freedom and all-interleavings equivalence are not decidable with sequential contracts (stated not applicable in evidence.assumptions); a bounded stand-in perturbs real schedules.',
    'technique': 'contract-based deductive verification of the contract-shaped sub-claims (slot accounting, lock discipline): sidecar contracts on the real functions, VCs by symbolic execution of the AST, discharged by z3',
    'design_ref': 'DESIGN.md 6/C09',
}
