"""C18 - The snapshot cache never changes what a command does.

The cache is consulted in exactly one function, Repository._download_snapshot_threadsafe;
the property is its postcondition (DESIGN 6/C18)."""
from __future__ import annotations

import z3

from vf import sym, models, ops
from vf.ops import MethodModel
from vf.sym import SV, INT, BOOL, STR, BYTES, Opt
from vf.interp import Model, Raised, Exc, Obj
from vf.unit import Unit, Lemma
from specs import shared
from specs.shared import REPO_PY, UF, H

LEVEL = 'proof'
BODY, SNAPDATA = shared.BODY, shared.SNAPDATA


def setup(b):
    me = shared.repo_self(b)
    path = b.sym('path', STR)
    d = b.sym('expected_digest', BYTES)
    b.bind('loop', Obj('loop'))
    B = UF('B', STR, BYTES)            # backend contents (assumed interface: download(name) = B[name])
    decode = UF('decode', BYTES, BODY)

    def get_cached(interp, st, args, kwargs):
        miss = st.copy()
        miss.emit('cache_miss', path=args[0])
        yield miss, Raised(Exc('FileNotFoundError'))
        c = sym.fresh(BYTES, 'cached')     # ANY bytes: stale, truncated, foreign ...
        st.emit('cache_read', path=args[0], data=c)
        yield st, c

    def store_cached(interp, st, args, kwargs):
        st.emit('cache_store', path=args[0], data=args[1])
        yield st, None

    def delete_cached(interp, st, args, kwargs):
        # the cache primitive that drops an entry (its own contract: C18.cache._delete_cached): no result.  Like _store_cached it is
        # modelled without operating-system faults: the property quantifies over cache STATES, not over faults of the cache directory
        st.emit('cache_delete', path=args[0])
        yield st, None

    def download(interp, st, args, kwargs):
        fail = st.copy()
        fail.emit('download_failed')
        yield fail, Raised(Exc('AnyError'))
        st.emit('download', path=args[0])
        yield st, SV(BYTES, B(sym.lift(args[0], STR).z))

    def decrypt_body(interp, st, args, kwargs):
        fail = st.copy()
        fail.emit('decode', data=args[0], ok=False)
        yield fail, Raised(Exc('AnyError'))      # JSONDecodeError / DecryptionError of the table ...
        st.emit('decode', data=args[0], ok=True)
        yield st, SV(BODY, decode(sym.lift(args[0], BYTES).z))

    me._attrs.update({
        '_get_cached': Model('_get_cached', get_cached),
        '_store_cached': Model('_store_cached', store_cached),
        '_delete_cached': Model('_delete_cached', delete_cached),
        '_download_threadsafe': Model('_download_threadsafe', download),
        '_decrypt_snapshot_body': Model('_decrypt_snapshot_body', decrypt_body),
    })
    b.B, b.decode, b.path, b.d = B, decode, path, d
    b.me = me


def sig(p):
    return ','.join(e.kind for e in p.st.events if e.kind not in ('yield',)) + '->' + p.kind + (
        ':' + p.value.cls if p.kind == 'raise' else '')


def post(res):
    b = res.builder
    Hf = H()
    for i, p in enumerate(res.paths):
        i = sig(p)
        decs = p.events('decode')
        # verified: whatever is decoded hashes to the expected digest (cache path included)
        for e in decs:
            res.oblige(p.pc_at(e), f'load.verified#{i}', Hf(sym.lift(e.data['data'], BYTES).z) == b.d.z,
                       meta={'path_events': [x.kind for x in p.st.events]})
        if p.kind in ('return', 'normal'):          # 'normal': the body ran off its end (an implicit `return None`)
            ok = [e for e in decs if e.data['ok']]
            if len(ok) != 1:
                res.oblige(p, f'load.one_decode#{i}', z3.BoolVal(False))
                continue
            x = sym.lift(ok[0].data['data'], BYTES).z
            # transparent: the returned body is decode(x) with H(x) == d
            if not (isinstance(p.value, SV) and p.value.ty == BODY):
                # a return path that hands back something that is not a decoded body at all (None: "skip this snapshot")
                res.oblige(p, f'load.result_is_decoded_verified_bytes#{i}', z3.BoolVal(False))
                continue
            res.oblige(p, f'load.result_is_decoded_verified_bytes#{i}',
                       z3.And(p.value.z == b.decode(x), Hf(x) == b.d.z))
        if p.kind == 'raise':
            # fallback: a cache entry alone never makes the command fail; every error path
            # has attempted the download of this very path
            dl = [e for e in p.st.events if e.kind in ('download', 'download_failed')]
            verified_used = [Hf(sym.lift(e.data['data'], BYTES).z) == b.d.z for e in decs]
            res.oblige(p, f'load.fallback#{i}', z3.Or(z3.BoolVal(bool(dl)), *verified_used),
                       meta={'path_events': [x.kind for x in p.st.events], 'exc': p.value.cls})
            if p.value.cls == 'ReplicatError':
                # "corrupted" is reported only for the downloaded object
                res.oblige(p, f'load.corrupted_means_backend#{i}',
                           z3.And(bool(dl), Hf(b.B(b.path.z)) != b.d.z))
        for e in p.events('cache_store'):
            # stores the raw downloaded object of this path, after verification
            res.oblige(p.pc_at(e), f'cache.stores_raw#{i}', z3.And(
                sym.lift(e.data['data'], BYTES).z == b.B(b.path.z),
                sym.lift(e.data['path'], STR).z == b.path.z,
                Hf(sym.lift(e.data['data'], BYTES).z) == b.d.z))
        for e in p.st.events:
            if e.kind in ('cache_miss', 'cache_read', 'cache_store'):
                # precondition of the cache primitives (they only `assert` it): never called without a cache directory
                cd = b.me.get('_cache_directory')
                res.oblige(p.pc_at(e), f'load.cache_touched_only_with_a_cache_directory#{i}', z3.Not(cd.ty.is_none(cd.z)))
        for e in p.events('download'):
            res.oblige(p.pc_at(e), f'load.downloads_own_path#{i}', sym.lift(e.data['path'], STR).z == b.path.z)


def lemma_transparent(add):
    # contracts only: result = decode(x) & H(x)=d, H injective on the two candidates (A-collision)
    x, y, d = z3.Strings('x y d')
    Hf = H()
    decode = UF('decode', BYTES, BODY)
    add('same_for_every_cache_state', [Hf(x) == d, Hf(y) == d, z3.Implies(Hf(x) == Hf(y), x == y)],
        decode(x) == decode(y))


def units(prop):
    return [
        Unit(f'{prop}.load', REPO_PY, 'Repository._download_snapshot_threadsafe', setup, post, prop=prop),
        Lemma(f'{prop}.lemma.transparent', lemma_transparent, prop=prop),
    ] + cache_prim_units(prop)





# ------------------------------------------------------------------ the three cache primitives name the SAME file
def cache_prim_setup(b):
    from vf.sym import Opt
    me = shared.repo_self(b)
    b.me = me
    b.sym('path', STR)
    b.sym('data', BYTES)
    # precondition (stated by the code as an `assert`, discharged at every call site: C18.load / delete units): a cache directory is set
    cd = me.get('_cache_directory')
    b.assume(z3.Not(cd.ty.is_none(cd.z)))
    P = models.opaque_type('CachePath')
    P.lenient = True          # methods the sidecar has no model for (is_dir, exists, with_name ...): unknown results

    def path_ctor(interp, st, args, kwargs):
        st.emit('Path', args=list(args))
        if len(args) == 2:
            d = ops.unwrap_opt(interp, st, args[0], 'cache_directory')
            yield st, SV(P, UF('path_under', STR, STR, P)(sym.lift(d, STR).z, sym.lift(args[1], STR).z))
        else:
            yield st, sym.fresh(P, 'other_path')

    def ev(name):
        def m(interp, st, args, kwargs):
            st.emit(name, target=args[0], args=list(args[1:]), kwargs=dict(kwargs))
            if name == 'read_bytes':
                bad = st.copy()
                yield bad, Raised(Exc('FileNotFoundError'))
                yield st, sym.fresh(BYTES, 'cached_bytes')
            else:
                yield st, None
        return MethodModel(name, m)

    def parent(interp, st, v):
        yield st, SV(P, UF('parent_of', P, P)(v.z))

    P.attrs = {'read_bytes': ev('read_bytes'), 'write_bytes': ev('write_bytes'), 'unlink': ev('unlink'), 'mkdir': ev('mkdir'),
               'parent': ops.Property(parent)}
    b.P = P
    b.bind('Path', Model('Path', path_ctor))


def cache_prim_post(prop, which):
    def post(res):
        b = res.builder
        P = b.P
        cd = b.me.get('_cache_directory')
        entry = UF('path_under', STR, STR, P)(cd.ty.val(cd.z), b.st.lookup('path').z)
        for p in res.paths:
            if p.kind == 'raise' and p.value.cls in ('AssertionError', 'FileNotFoundError'):
                continue
            kinds = [e.kind for e in p.st.events]
            op = {'_get_cached': 'read_bytes', '_store_cached': 'write_bytes', '_delete_cached': 'unlink'}[which]
            evs = p.events(op)
            ok = len(evs) == 1 and p.kind in ('return', 'normal')
            # the entry of a snapshot is the file <cache directory>/<storage path of the snapshot>: the SAME file for lookup,
            # store and removal (so a removed snapshot's entry is really removed and a stored entry is the one looked up)
            res.oblige(p, f'{prop}.cache.{which}.acts_on_the_entry_of_that_path', z3.BoolVal(ok) if not ok else evs[0].data['target'].z == entry)
            if which == '_store_cached' and ok:
                res.oblige(p, f'{prop}.cache._store_cached.stores_the_given_bytes', z3.And(
                    z3.BoolVal(len(evs[0].data['args']) == 1), sym.lift(evs[0].data['args'][0], BYTES).z == b.st.lookup('data').z if len(evs[0].data['args']) == 1 else z3.BoolVal(False)))
                mk = p.events('mkdir')
                res.oblige(p, f'{prop}.cache._store_cached.creates_the_directory_first', z3.BoolVal(
                    len(mk) == 1 and kinds.index('mkdir') < kinds.index('write_bytes') and mk[0].data['kwargs'].get('parents') is True
                    and mk[0].data['kwargs'].get('exist_ok') is True) if len(mk) != 1 else z3.And(
                    z3.BoolVal(kinds.index('mkdir') < kinds.index('write_bytes') and mk[0].data['kwargs'].get('parents') is True and mk[0].data['kwargs'].get('exist_ok') is True),
                    mk[0].data['target'].z == UF('parent_of', P, P)(entry)))
            if which == '_delete_cached' and ok:
                res.oblige(p, f'{prop}.cache._delete_cached.missing_entry_is_fine', z3.BoolVal(evs[0].data['kwargs'].get('missing_ok') is True))
            if which == '_get_cached' and ok:
                res.oblige(p, f'{prop}.cache._get_cached.returns_what_was_read', z3.BoolVal(isinstance(p.value, SV) and p.value.ty == BYTES and p.st.events[-1] is evs[0]))
    return post


def cache_prim_units(prop):
    return [Unit(f'{prop}.{w}', REPO_PY, f'Repository.{w}', cache_prim_setup, cache_prim_post(prop, w), prop=prop)
            for w in ('_get_cached', '_store_cached', '_delete_cached')]


UNITS = units('C18')
