"""Small contracts: AEAD nonce freshness (C05), JSON bytes tagging (C14), legacy metadata (C14),
chunkify family key (C07), rate-limit chunk size (C20)."""
from __future__ import annotations

import z3

from vf import sym, models, ops, source
from vf.sym import SV, INT, BOOL, REAL, STR, BYTES, Opt, Tup, List, Ref, Cls
from vf.interp import Model, Raised, Exc, Obj, LoopSpec, PyRef
from vf.unit import Unit, Lemma
from vf.ops import CM, MethodModel, Property
from specs import shared
from specs.shared import REPO_PY, ADAPTERS_PY, UTILS_PY, UF

# ---- AEADCipherAdapterMixin.encrypt / decrypt ----------------------------------------------------
AEADOBJ = models.opaque_type('AEAD')


def aead_size_attrs(cls):
    """names of the two private attributes in which the cipher object keeps its nonce and key lengths - found by what the code does with
    them (the argument of os.urandom in `encrypt`; what the key-length accessor returns), not by how they are spelt"""
    import ast as _ast
    from vf import source
    nonce_attr, key_attr = '_nonce_bytes', '_key_bytes'
    try:
        enc = source.select(ADAPTERS_PY, source.resolve_method(ADAPTERS_PY, cls, 'encrypt'))
        for n in _ast.walk(enc):
            if isinstance(n, _ast.Call) and _ast.unparse(n.func).endswith('urandom') and n.args and isinstance(n.args[0], _ast.Attribute) \
                    and isinstance(n.args[0].value, _ast.Name) and n.args[0].value.id == enc.args.args[0].arg:
                nonce_attr = n.args[0].attr
    except Exception:
        pass
    for acc in ('key_bytes', 'key_length', 'key_size'):
        try:
            fn = source.select(ADAPTERS_PY, source.resolve_method(ADAPTERS_PY, cls, acc))
        except Exception:
            continue
        rets = [n.value for n in _ast.walk(fn) if isinstance(n, _ast.Return) and isinstance(n.value, _ast.Attribute)]
        if len(rets) == 1:
            key_attr = rets[0].attr
            break
    return key_attr, nonce_attr


def aead_setup_for(cls):
    def aead_setup(b):
        nb = sym.const(INT, 'nonce_bytes')
        b.assume(nb.z >= 1)
        b.nb = nb
        me = Obj('self', cipher_class=Model('cipher_class', lambda i, s, a, k: iter([(s, SV(AEADOBJ, UF('aead_of_key', BYTES, AEADOBJ)(sym.lift(a[0], BYTES).z)))])))
        # `self` is an instance of the CONCRETE cipher class: helpers encrypt() calls are resolved through its MRO and
        # inlined from the real source (an override in the subclass is what runs); other state is unknown
        me._attrs[aead_size_attrs(cls)[1]] = nb
        me._class_source = (ADAPTERS_PY, cls)
        me._lenient = True
        b.bind('self', me)
        b.sym('data', BYTES)
        b.sym('key', BYTES)

        def urandom(interp, st, args, kwargs):
            r = sym.fresh(BYTES, 'urandom')
            st.assume(z3.Length(r.z) == sym.lift(args[0], INT).z)
            st.emit('urandom', n=args[0], value=r)
            yield st, r

        b.bind('os', Obj('os', urandom=Model('os.urandom', urandom)))

        def enc(interp, st, args, kwargs):
            _, nonce, data, aad = args
            st.emit('aead_encrypt', nonce=nonce, data=data, aad=aad)
            yield st, SV(BYTES, UF('aead_enc', AEADOBJ, BYTES, BYTES, BYTES)(args[0].z, sym.lift(nonce, BYTES).z, sym.lift(data, BYTES).z))

        AEADOBJ.attrs = {'encrypt': MethodModel('encrypt', enc)}
    return aead_setup


def aead_post(prop):
    def post(res):
        b = res.builder
        for p in res.paths:
            if p.kind != 'return':
                res.oblige(p, f'{prop}.aead.total', z3.BoolVal(False))
                continue
            ur, en = p.events('urandom'), p.events('aead_encrypt')
            ok = len(ur) == 1 and len(en) == 1
            # C05.nonce.fresh_per_call: the nonce is an os.urandom value drawn INSIDE this call
            res.oblige(p, f'{prop}.aead.nonce_drawn_inside_the_call', z3.BoolVal(ok))
            if ok:
                res.oblige(p, f'{prop}.aead.nonce_is_that_urandom_of_configured_length', z3.And(
                    sym.lift(en[0].data['nonce'], BYTES).z == ur[0].data['value'].z,
                    sym.lift(ur[0].data['n'], INT).z == b.nb.z,
                    sym.lift(en[0].data['data'], BYTES).z == b.st.lookup('data').z))
                # stored form = nonce ++ ciphertext (what decrypt splits at _nonce_bytes)
                res.oblige(p, f'{prop}.aead.result_is_nonce_then_ciphertext',
                           z3.PrefixOf(ur[0].data['value'].z, sym.lift(p.value, BYTES).z))
    return post


def aead_units(prop):
    """one unit per concrete AEAD cipher class of adapters.py: the `encrypt` that class really runs"""
    from vf import source
    out = []
    for cls in source.subclasses(ADAPTERS_PY, 'AEADCipherAdapterMixin'):
        out.append(Unit(f'{prop}.aead_encrypt[{cls}]', ADAPTERS_PY, source.resolve_method(ADAPTERS_PY, cls, 'encrypt'),
                        aead_setup_for(cls), aead_post(prop), prop=prop))
    return out



# ---- utils.type_hint / type_reverse ----------------------------------------------------------------
def b64(z):
    return UF('b64encode', BYTES, BYTES)(z)


def unb64(z):
    return UF('b64decode', STR, BYTES)(z)


def type_hint_setup(b):
    b.sym('object', BYTES)
    b.bind('collections', Obj('collections', abc=Obj('abc', ByteString=models.TypeObj('ByteString', 'bytes'))))
    b.bind('base64', Obj('base64', standard_b64encode=Model('b64encode', lambda i, s, a, k: iter(
        [(s, SV(BYTES, b64(sym.lift(a[0], BYTES).z)))]))))


def type_hint_post(prop):
    def post(res):
        b = res.builder
        for p in res.paths:
            if p.kind != 'return':
                res.oblige(p, f'{prop}.type_hint.total_on_bytes', z3.BoolVal(False))
                continue
            d = res.interp.deref(p.st, p.value)
            # documented tagging: {'!b': base64(bytes)} (ascii text)
            res.oblige(p, f'{prop}.type_hint.bytes_tag', z3.BoolVal(list(d) == ['!b']) if list(d) != ['!b'] else
                       sym.lift(d['!b'], STR).z == b64(b.st.lookup('object').z))
    return post


def type_reverse_setup(b):
    # the two shapes that matter: a one-entry object with the '!b' tag, and any other object
    enc = sym.const(STR, 'encoded')
    b.enc = enc
    b.bind('object', b.st.new_py('dict', {'!b': enc}))
    b.bind('base64', Obj('base64', standard_b64decode=Model('b64decode', lambda i, s, a, k: iter(
        [(s, SV(BYTES, unb64(sym.lift(a[0], STR).z)))]))))


def type_reverse_post(prop):
    def post(res):
        b = res.builder
        for p in res.paths:
            if p.kind != 'return':
                res.oblige(p, f'{prop}.type_reverse.total', z3.BoolVal(False))
                continue
            res.oblige(p, f'{prop}.type_reverse.decodes_tagged_bytes', z3.BoolVal(isinstance(p.value, SV)) if not isinstance(p.value, SV)
                       else p.value.z == unb64(b.enc.z))
    return post


def type_reverse_other_setup(b):
    b.bind('object', b.st.new_py('dict', {'path': 'x', 'chunks': 1}))
    b.bind('base64', Obj('base64'))


def type_reverse_other_post(prop):
    def post(res):
        for p in res.paths:
            res.oblige(p, f'{prop}.type_reverse.other_objects_unchanged', z3.BoolVal(
                p.kind == 'return' and p.value is res.builder.st.lookup('object')))
    return post


def json_units(prop):
    return [
        Unit(f'{prop}.type_hint', UTILS_PY, 'type_hint', type_hint_setup, type_hint_post(prop), prop=prop),
        Unit(f'{prop}.type_reverse', UTILS_PY, 'type_reverse', type_reverse_setup, type_reverse_post(prop), prop=prop),
        Unit(f'{prop}.type_reverse_other', UTILS_PY, 'type_reverse', type_reverse_other_setup, type_reverse_other_post(prop), prop=prop),
    ]


# ---- restore_metadata: current and pre-1.3 metadata --------------------------------------------------
def restore_metadata_setup(variant):
    def setup(b):
        me = shared.repo_self(b, props=False, cache=False)
        b.sym('path', models.opaque_type('PathObj'))
        vals = {k: sym.const(INT, k) for k in ('st_atime_ns', 'st_mtime_ns', 'st_atime', 'st_mtime')}
        b.vals = vals
        keys = {'new': ['st_atime_ns', 'st_mtime_ns', 'st_mode'], 'old': ['st_atime', 'st_mtime', 'st_mode'],
                'mixed': ['st_atime_ns', 'st_atime', 'st_mtime']}[variant]
        b.bind('metadata', b.st.new_py('dict', {k: vals.get(k, 0) for k in keys}))

        def utime(interp, st, args, kwargs):
            st.emit('utime', kwargs=dict(kwargs))
            yield st, None

        b.bind('os', Obj('os', utime=Model('os.utime', utime)))
    return setup


def restore_metadata_post(prop, variant):
    def post(res):
        b = res.builder
        for p in res.paths:
            ut = p.events('utime')
            if p.kind not in ('normal', 'return') or len(ut) != 1:
                res.oblige(p, f'{prop}.restore_metadata[{variant}].one_utime_call', z3.BoolVal(False))
                continue
            kw = ut[0].data['kwargs']
            if variant == 'new':
                ok = 'ns' in kw and isinstance(kw['ns'], tuple)
                res.oblige(p, f'{prop}.restore_metadata[new].uses_recorded_ns_times', z3.BoolVal(ok) if not ok else z3.And(
                    kw['ns'][0].z == b.vals['st_atime_ns'].z, kw['ns'][1].z == b.vals['st_mtime_ns'].z))
            else:
                ok = 'times' in kw and isinstance(kw['times'], tuple)
                res.oblige(p, f'{prop}.restore_metadata[{variant}].falls_back_to_second_resolution_times', z3.BoolVal(ok) if not ok else z3.And(
                    kw['times'][0].z == b.vals['st_atime'].z, kw['times'][1].z == b.vals['st_mtime'].z))
    return post


def metadata_units(prop):
    return [Unit(f'{prop}.restore_metadata_{v}', REPO_PY, 'Repository.restore_metadata', restore_metadata_setup(v),
                 restore_metadata_post(prop, v), prop=prop) for v in ('new', 'old', 'mixed')]


# ---- RepositoryProps.chunkify: the chunker key is the family's chunker_params (or None) ---------------
def chunkify_setup(b):
    p, enc = shared.make_props(b)
    b.bind('self', p)
    b.p = p
    IT = models.opaque_type('Iter')
    b.sym('it', IT)

    def chunker_call(interp, st, args, kwargs):
        st.emit('chunker_call', it=args[1] if len(args) > 1 else args[0], params=kwargs.get('params'))
        yield st, sym.fresh(IT, 'chunks')

    shared.CHUNKER.attrs = {'__call__': MethodModel('__call__', chunker_call)}
    shared.CHUNKER.callable = True


def chunkify_post(prop):
    def post(res):
        b = res.builder
        for p in res.paths:
            view = shared.PropsView(p.st, b.p)
            cc = p.events('chunker_call')
            if p.kind != 'return' or len(cc) != 1:
                res.oblige(p, f'{prop}.chunkify.one_call', z3.BoolVal(False))
                continue
            prm = cc[0].data['params']
            if prm is None:
                res.oblige(p, f'{prop}.chunkify.no_key_only_when_unencrypted', z3.Not(view.encrypted))
            else:
                # C07.chunker.family_key: boundaries depend on the content and the FAMILY's key only
                if isinstance(prm, SV) and isinstance(prm.ty, Opt):
                    zprm, some = prm.ty.val(prm.z), z3.Not(prm.ty.is_none(prm.z))
                else:
                    zprm, some = sym.lift(prm, BYTES).z, z3.BoolVal(True)
                res.oblige(p, f'{prop}.chunkify.family_chunker_key', z3.And(view.encrypted, some, zprm == view.chunker_params))
    return post


def chunkify_unit(prop):
    return Unit(f'{prop}.chunkify', REPO_PY, 'RepositoryProps.chunkify', chunkify_setup, chunkify_post(prop), prop=prop)


# ---- the primitive adapters: what exactly is handed to hashlib / cryptography ---------------------------------
def blake_setup(method):
    def setup(b):
        from specs.settings import Settable
        me = Obj('self', digest_size=sym.const(INT, 'digest_size'))
        b.bind('self', me)
        b.sym('key_material', BYTES)
        b.sym('message', BYTES)
        b.sym('data', BYTES)
        b.sym('params', BYTES)
        b.sym('context', Opt(BYTES))
        H = models.opaque_type('Blake2bObj')
        H.attrs = {'digest': MethodModel('digest', lambda i, s, a, k: iter([(s, SV(BYTES, UF('blake2b_out', H, BYTES)(a[0].z)))]))}

        def blake2b(interp, st, args, kwargs):
            st.emit('blake2b', data=args[0] if args else b'', kwargs=dict(kwargs))
            yield st, sym.fresh(H, 'h')

        m = Model('blake2b', blake2b)
        m.attrs = {'MAX_KEY_SIZE': 64, 'MAX_DIGEST_SIZE': 64, 'SALT_SIZE': 16, 'PERSON_SIZE': 16}
        b.bind('hashlib', Obj('hashlib', blake2b=m))
    return setup


def blake_post(prop, method):
    def post(res):
        b = res.builder
        g = lambda n: b.st.lookup(n)
        for p in res.paths:
            ev = p.events('blake2b')
            if p.kind != 'return' or len(ev) != 1:
                res.oblige(p, f'{prop}.blake2b.{method}.one_hash_call', z3.BoolVal(False))
                continue
            e = ev[0]
            kw = e.data['kwargs']
            data = e.data['data']
            zb = lambda v: (Opt(BYTES).val(v.z) if isinstance(v, SV) and isinstance(v.ty, Opt) else sym.lift(v, BYTES).z)
            ds = sym.lift(kw.get('digest_size'), INT).z == b.st.lookup('self').get('digest_size').z
            if method == 'derive':
                ctx = g('context')
                # FastKdf(ikm, salt, context): BLAKE2b keyed with the WHOLE key material, salted, over the context
                res.oblige(p, f'{prop}.blake2b.derive.keyed_with_whole_key_material_salted_over_context', z3.And(
                    ds, zb(kw['key']) == g('key_material').z, zb(kw['salt']) == g('params').z,
                    zb(data) == z3.If(ctx.ty.is_none(ctx.z), z3.StringVal(''), ctx.ty.val(ctx.z))))
            elif method == 'mac':
                res.oblige(p, f'{prop}.blake2b.mac.keyed_hash_of_the_message', z3.And(
                    ds, zb(kw['key']) == g('params').z, zb(data) == g('message').z, z3.BoolVal('salt' not in kw)))
            else:
                res.oblige(p, f'{prop}.blake2b.digest.plain_hash_of_the_data', z3.And(
                    ds, zb(data) == g('data').z, z3.BoolVal('key' not in kw and 'salt' not in kw)))
    return post


def scrypt_setup(b):
    me = Obj('self', n=sym.const(INT, 'n'), r=sym.const(INT, 'r'), p=sym.const(INT, 'p'), length=sym.const(INT, 'length'))
    b.bind('self', me)
    b.sym('pwd', BYTES)
    b.sym('params', BYTES)
    b.sym('context', Opt(BYTES))
    S = models.opaque_type('ScryptObj')
    S.attrs = {'derive': MethodModel('derive', lambda i, s, a, k: (s.emit('scrypt_derive', pwd=a[1]), iter([(s, sym.fresh(BYTES, 'uk'))]))[1])}

    def Scrypt(interp, st, args, kwargs):
        st.emit('Scrypt', kwargs=dict(kwargs))
        yield st, sym.fresh(S, 'scrypt')

    b.bind('Scrypt', Model('Scrypt', Scrypt))


def scrypt_post(prop):
    def post(res):
        b = res.builder
        me = b.st.lookup('self')
        ctx = b.st.lookup('context')
        for p in res.paths:
            sc, dv = p.events('Scrypt'), p.events('scrypt_derive')
            if p.kind != 'return' or len(sc) != 1 or len(dv) != 1:
                res.oblige(p, f'{prop}.scrypt.derive.one_call', z3.BoolVal(False))
                continue
            kw = sc[0].data['kwargs']
            # SlowKdf(password, salt[, context]): the whole password, cost parameters of the adapter, salt ++ context
            res.oblige(p, f'{prop}.scrypt.derive.whole_password_configured_costs_salt_then_context', z3.And(
                sym.lift(dv[0].data['pwd'], BYTES).z == b.st.lookup('pwd').z,
                *[sym.lift(kw[x], INT).z == me.get(x).z for x in ('n', 'r', 'p', 'length')],
                sym.lift(kw['salt'], BYTES).z == z3.Concat(b.st.lookup('params').z, z3.If(ctx.ty.is_none(ctx.z), z3.StringVal(''), ctx.ty.val(ctx.z)))))
    return post


def primitive_units(prop):
    out = [Unit(f'{prop}.blake2b_{m}', ADAPTERS_PY, f'blake2b.{m}', blake_setup(m), blake_post(prop, m), prop=prop) for m in ('derive', 'mac', 'digest')]
    out.append(Unit(f'{prop}.scrypt_derive', ADAPTERS_PY, 'scrypt.derive', scrypt_setup, scrypt_post(prop), prop=prop))
    return out


# ---- sha2 / sha3 adapters: every digest and every incremental hasher starts from a FRESH hash object -------------
def hashlib_adapter_setup(b):
    HOBJ = models.opaque_type('HashObject')
    counter = {'n': 0}

    def new_obj(st, origin, data=None):
        counter['n'] += 1
        o = sym.fresh(HOBJ, f'hashobj{counter["n"]}')
        st.emit('hash_new', obj=o, origin=origin, data=data)
        return o

    def ctor(interp, st, args, kwargs):
        st.emit('hash_ctor_kwargs', kwargs=dict(kwargs))
        yield st, new_obj(st, 'constructor', args[0] if args else None)

    def copy(interp, st, args, kwargs):
        yield st, new_obj(st, 'copy')

    def update(interp, st, args, kwargs):
        st.emit('hash_update', obj=args[0], data=args[1])
        yield st, None

    def digest(interp, st, args, kwargs):
        st.emit('hash_digest', obj=args[0])
        yield st, sym.fresh(BYTES, 'digest')

    HOBJ.attrs = {'copy': MethodModel('copy', copy), 'update': MethodModel('update', update), 'digest': MethodModel('digest', digest)}
    me = Obj('self', _hasher_class=Model('hasher_class', ctor), digest_size=sym.const(INT, 'digest_size'))
    me._lenient = True
    b.bind('self', me)
    b.me = me
    b.sym('data', BYTES)

    def wrap(interp, st, args, kwargs):
        st.emit('incremental_wrapper', arg=args[0] if args else None)
        yield st, Obj('incremental')

    b.bind('HashlibIncrementalHasher', Model('HashlibIncrementalHasher', wrap))
    b.bind('hashlib', Obj('hashlib', new=Model('hashlib.new', ctor), blake2b=Model('hashlib.blake2b', ctor)))


def hashlib_adapter_post(prop, cls, method):
    def post(res):
        b = res.builder
        for p in res.paths:
            news = p.events('hash_new')
            fresh = [e for e in news if e.data['origin'] == 'constructor']
            if method == 'digest':
                dg = p.events('hash_digest')
                ok = p.kind == 'return' and len(dg) == 1 and isinstance(dg[0].data['obj'], SV)
                if ok:
                    mine = [e for e in fresh if e.data['obj'] is dg[0].data['obj']]
                    ups = [e for e in p.events('hash_update') if e.data['obj'] is dg[0].data['obj']]
                    fed = ([mine[0].data['data']] if mine and mine[0].data['data'] is not None else []) + [e.data['data'] for e in ups]
                    ok = bool(mine) and len(fed) == 1 and fed[0] is b.st.lookup('data')
                # the digest is that of a hash object created IN THIS CALL and fed exactly `data`: a pure function of the data
                res.oblige(p, f'{prop}.{cls}.digest.fresh_hash_object_fed_exactly_the_data', z3.BoolVal(bool(ok)))
            else:
                w = p.events('incremental_wrapper')
                ok = p.kind == 'return' and len(w) == 1 and isinstance(w[0].data['arg'], SV)
                if ok:
                    mine = [e for e in fresh if e.data['obj'] is w[0].data['arg']]
                    ok = bool(mine) and mine[0].data['data'] is None and not p.events('hash_update')
                # every incremental hasher (one per file) starts EMPTY and is nobody else's object
                res.oblige(p, f'{prop}.{cls}.incremental_hasher.fresh_empty_hash_object', z3.BoolVal(bool(ok)))
                if cls == 'blake2b':
                    kws = p.events('hash_ctor_kwargs')
                    okk = len(kws) == 1 and set(kws[0].data['kwargs']) == {'digest_size'}
                    res.oblige(p, f'{prop}.blake2b.incremental_hasher.unkeyed_with_the_configured_digest_size', z3.BoolVal(okk) if not okk else
                               sym.lift(kws[0].data['kwargs']['digest_size'], INT).z == b.me.get('digest_size').z)
    return post


def hashlib_adapter_units(prop):
    return [Unit(f'{prop}.{cls}_{m}', ADAPTERS_PY, f'{cls}.{m}', hashlib_adapter_setup, hashlib_adapter_post(prop, cls, m), prop=prop)
            for cls in ('sha2', 'sha3') for m in ('digest', 'incremental_hasher')] + [
        Unit(f'{prop}.blake2b_incremental_hasher', ADAPTERS_PY, 'blake2b.incremental_hasher', hashlib_adapter_setup,
             hashlib_adapter_post(prop, 'blake2b', 'incremental_hasher'), prop=prop)]


# ---- _metadata_ts_to_dt: the times the listings print (current *_ns fields, pre-1.3 fields in seconds) -----------------
def ts_to_dt_setup(variant):
    def setup(b):
        from specs import shared as _sh
        me = _sh.repo_self(b, props=False, cache=False)
        MD = models.opaque_type('FileMetadata', pytype='dict')
        md = b.sym('metadata', MD)

        def getitem(interp, st, v, idx):
            if not isinstance(idx, str):
                raise sym.Unsupported('metadata key')
            st.emit('metadata_read', key=idx)
            if idx.endswith('_ns') and variant == 'old':
                yield st, Raised(Exc('KeyError'))
            else:
                yield st, SV(sym.REAL, z3.ToReal(UF('meta_int_' + idx, MD, INT)(v.z)))

        MD.getitem = getitem
        b.bind('key', 'st_mtime_ns')
        DT = models.opaque_type('DateTime')
        DT.attrs = {'replace': MethodModel('replace', lambda i, s, a, k: (s.emit('dt_replace', kwargs=dict(k)), iter([(s, a[0])]))[1])}

        def fromtimestamp(interp, st, args, kwargs):
            st.emit('fromtimestamp', ts=args[0], kwargs=dict(kwargs))
            yield st, sym.fresh(DT, 'dt')

        b.bind('datetime', Obj('datetime', fromtimestamp=Model('fromtimestamp', fromtimestamp)))
        b.bind('timezone', Obj('timezone', utc=Obj('utc')))
        b.MD = MD
    return setup


def ts_to_dt_post(prop, variant):
    def post(res):
        b = res.builder
        md = b.st.lookup('metadata').z
        for p in res.paths:
            ft = p.events('fromtimestamp')
            ok = p.kind == 'return' and len(ft) == 1
            if variant == 'new':
                want = z3.ToReal(UF('meta_int_st_mtime_ns', b.MD, INT)(md)) / 1000000000
                what = 'nanoseconds_scaled_to_seconds'
            else:
                want = z3.ToReal(UF('meta_int_st_mtime', b.MD, INT)(md))
                what = 'pre_1_3_seconds_used_as_they_are'
            # the instant shown is the recorded one: *_ns fields are nanoseconds, the pre-1.3 fields are seconds
            res.oblige(p, f'{prop}.metadata_ts_to_dt[{variant}].{what}', z3.BoolVal(ok) if not ok else sym.lift(ft[0].data['ts'], sym.REAL).z == want)
    return post


def ts_to_dt_units(prop):
    return [Unit(f'{prop}.metadata_ts_to_dt[{v}]', REPO_PY, 'Repository._metadata_ts_to_dt', ts_to_dt_setup(v), ts_to_dt_post(prop, v), prop=prop)
            for v in ('new', 'old')]


# ---- the constructor each concrete AEAD cipher class really runs: key and nonce sizes of the object ARE the configured ones -------------
# ciphers whose sizes are fixed by their standard (RFC 8439), not by parameters
FIXED_AEAD_SIZES = {'chacha20_poly1305': (256, 96)}


def aead_ctor_setup_for(cls):
    def setup(b):
        dotted = source.resolve_method(ADAPTERS_PY, cls, '__init__')
        node = source.select(ADAPTERS_PY, dotted)
        params = [a.arg for a in node.args.kwonlyargs + node.args.args[1:]]
        b.params = {}
        for name in params:
            v = b.sym(name, INT)
            b.params[name] = v
        from vf.interp import Closure

        class Self(Obj):
            """`self` under construction: attribute stores are recorded in ghost state; reads see this path's stores, then the class
            attributes of the REAL class along its MRO, then its real methods"""
            _is_settable = True

            def vf_getattr(me, interp, st, name):
                if ('attr', name) in st.ghost:
                    yield st, st.ghost[('attr', name)]
                    return
                for c in source.class_mro(ADAPTERS_PY, cls):
                    try:
                        val = source.class_attr(ADAPTERS_PY, c, name)
                    except source.SelectorError:
                        continue
                    import ast as _ast
                    if isinstance(val, _ast.Constant):
                        yield st, val.value
                        return
                    raise sym.Unsupported(f'class attribute {c}.{name} is not a constant')
                d = source.resolve_method(ADAPTERS_PY, cls, name)
                if d:
                    yield st, Closure(source.select(ADAPTERS_PY, d), 0, name, bound_self=me)
                    return
                raise sym.Unsupported(f'self.{name} read before assignment')

        me = Self('self')
        b.me = me
        b.bind('self', me)
        mro = source.class_mro(ADAPTERS_PY, cls)
        start = dotted.split('.')[0]

        def super_(interp, st, a, kw):
            # zero-argument super() inside `start.__init__`: the next class of cls' MRO that defines __init__
            for c in mro[mro.index(start) + 1:]:
                try:
                    n = source.select(ADAPTERS_PY, f'{c}.__init__')
                except source.SelectorError:
                    continue
                st.emit('super_init', cls=c)
                yield st, Obj('super', __init__=Closure(n, 0, '__init__', bound_self=me))
                return
            yield st, Obj('super', __init__=Model('object.__init__', lambda i, s, a2, k2: iter([(s, None)])))

        b.bind('super', Model('super', super_))
    return setup


def _aead_setattr_hook():
    orig = ops.setattr_

    def setattr_(interp, st, o, name, v):
        if getattr(o, '_is_settable', False):
            st.ghost[('attr', name)] = v
            st.emit('setattr', name=name, value=v)
            return
        return orig(interp, st, o, name, v)
    ops.setattr_ = setattr_


_aead_setattr_hook()


def aead_ctor_post(prop, cls):
    def post(res):
        b = res.builder
        for p in res.paths:
            if p.kind not in ('return', 'normal'):
                continue                  # rejected parameters: C17's concern
            if 'key_bits' in b.params and 'nonce_bits' in b.params:
                kb, nb = b.params['key_bits'].z, b.params['nonce_bits'].z
            elif cls in FIXED_AEAD_SIZES and not b.params:
                kb, nb = (z3.IntVal(x) for x in FIXED_AEAD_SIZES[cls])
            else:
                raise sym.Unsupported(f'no documented key/nonce size source for cipher class {cls}')
            ka, na = aead_size_attrs(cls)
            got_k, got_n = p.st.ghost.get(('attr', ka)), p.st.ghost.get(('attr', na))
            ok = got_k is not None and got_n is not None
            # the object encrypts with keys of key_bits/8 bytes and prefixes nonces of nonce_bits/8 bytes: the sizes the stored config
            # states (what an independent reader of the format splits each object by)
            res.oblige(p, f'{prop}.aead_ctor[{cls}].sizes_are_the_configured_ones', z3.BoolVal(False) if not ok else z3.And(
                sym.lift(got_k, INT).z == kb / 8, sym.lift(got_n, INT).z == nb / 8))
    return post


def aead_dec_setup_for(cls):
    inner = aead_setup_for(cls)

    def setup(b):
        inner(b)

        def dec(interp, st, args, kwargs):
            _, nonce, data, aad = args
            st.emit('aead_decrypt', cipher=args[0], nonce=nonce, data=data, aad=aad)
            bad = st.copy()
            yield bad, Raised(Exc('InvalidTag'))
            yield st, SV(BYTES, UF('aead_dec', AEADOBJ, BYTES, BYTES, BYTES)(args[0].z, sym.lift(nonce, BYTES).z, sym.lift(data, BYTES).z))

        AEADOBJ.attrs = dict(AEADOBJ.attrs, decrypt=MethodModel('decrypt', dec))
        b.bind('exceptions', shared.EXCEPTIONS)
        b.bind('InvalidTag', __import__('vf.interp', fromlist=['ExcClass']).ExcClass('InvalidTag'))
        b.assume(z3.Length(b.st.lookup('data').z) >= b.nb.z)
    return setup


def aead_dec_post(prop, cls):
    def post(res):
        b = res.builder
        data, key = b.st.lookup('data').z, b.st.lookup('key').z
        for p in res.paths:
            de = p.events('aead_decrypt')
            ok = len(de) == 1
            res.oblige(p, f'{prop}.aead_decrypt[{cls}].one_authenticated_decryption', z3.BoolVal(ok))
            if not ok:
                continue
            e = de[0]
            # the stored form is split where encrypt joined it: the first _nonce_bytes bytes are the nonce, the rest the ciphertext,
            # under the cipher of the given key, no associated data
            res.oblige(p.pc_at(e), f'{prop}.aead_decrypt[{cls}].splits_at_the_configured_nonce_length', z3.And(
                sym.lift(e.data['nonce'], BYTES).z == z3.SubString(data, 0, b.nb.z),
                sym.lift(e.data['data'], BYTES).z == z3.SubString(data, b.nb.z, z3.Length(data) - b.nb.z),
                e.data['cipher'].z == UF('aead_of_key', BYTES, AEADOBJ)(key),
                z3.BoolVal(e.data['aad'] is None)))
            if p.kind == 'raise':
                # a failed tag is the user-facing DecryptionError (what unlock/restore turn into their messages), nothing else escapes
                res.oblige(p, f'{prop}.aead_decrypt[{cls}].bad_tag_is_a_decryption_error', z3.BoolVal(p.value.cls == 'DecryptionError'))
            else:
                res.oblige(p, f'{prop}.aead_decrypt[{cls}].returns_the_authenticated_plaintext', z3.BoolVal(p.kind == 'return') if p.kind != 'return' else
                           sym.lift(p.value, BYTES).z == UF('aead_dec', AEADOBJ, BYTES, BYTES, BYTES)(e.data['cipher'].z, sym.lift(e.data['nonce'], BYTES).z, sym.lift(e.data['data'], BYTES).z))
    return post


def aead_ctor_units(prop):
    out = []
    for cls in source.subclasses(ADAPTERS_PY, 'AEADCipherAdapterMixin'):
        out.append(Unit(f'{prop}.aead_ctor[{cls}]', ADAPTERS_PY, source.resolve_method(ADAPTERS_PY, cls, '__init__'),
                        aead_ctor_setup_for(cls), aead_ctor_post(prop, cls), prop=prop))
        out.append(Unit(f'{prop}.aead_decrypt[{cls}]', ADAPTERS_PY, source.resolve_method(ADAPTERS_PY, cls, 'decrypt'),
                        aead_dec_setup_for(cls), aead_dec_post(prop, cls), prop=prop))
    return out


# ---- utils.bytes_to_human: the sizes the listings and the delete prompt print ------------------------------------------------------------
def b2h_setup(b):
    v = b.sym('value', INT)
    b.assume(v.z >= 0)
    b.bind('prec', 2)


def b2h_post(prop):
    def post(res):
        b = res.builder
        v = b.st.lookup('value').z
        rv = z3.ToReal(v)
        # decimal units; G is the largest (everything from 10**9 bytes up is counted in G)
        D = z3.If(v < 10 ** 3, z3.RealVal(1), z3.If(v < 10 ** 6, z3.RealVal(10 ** 3), z3.If(v < 10 ** 9, z3.RealVal(10 ** 6), z3.RealVal(10 ** 9))))
        U = z3.If(v < 10 ** 3, z3.StringVal('B'), z3.If(v < 10 ** 6, z3.StringVal('K'), z3.If(v < 10 ** 9, z3.StringVal('M'), z3.StringVal('G'))))
        rnd = res.interp.uf('round_n', REAL, INT, REAL)
        fmt = res.interp.uf('fmt_-1_g', REAL, STR)
        for p in res.paths:
            ok = p.kind == 'return'
            res.oblige(p, f'{prop}.bytes_to_human.number_in_the_unit_of_its_magnitude', z3.BoolVal(False) if not ok else
                       sym.lift(p.value, STR).z == z3.Concat(fmt(rnd(rv / D, z3.IntVal(2))), U))
    return post


def bytes_to_human_units(prop):
    u = Unit(f'{prop}.bytes_to_human', UTILS_PY, 'bytes_to_human', b2h_setup, b2h_post(prop), prop=prop)
    u.native = ('bytes_to_human',)
    return [u]
