"""C07 - Identical data is stored once."""
from specs import snapshot, loc

LEVEL = 'proof'
UNITS = [snapshot.worker_unit('C07'), snapshot.tail_unit('C07')]
BOUNDED = []
TRUSTED = []
ASSUMPTIONS = []
