"""C07 - Identical data is stored once."""
from specs import keys, snapshot, loc, misc, retry

LEVEL = 'proof'
UNITS = [snapshot.head_unit('C07'), snapshot.flatten_unit('C07'), snapshot.worker_unit('C07'), snapshot.producer_unit('C07'), snapshot.tail_unit('C07'), loc.chunk_loc_unit('C07'), misc.chunkify_unit('C07')] + loc.parts_units('C07')[:1] + misc.hashlib_adapter_units('C07') + keys.make_key_units('C07') + retry.requires_auth_units('C07')
from specs import families as _families
UNITS = _families.with_families('C07', UNITS)
BOUNDED = [{'name': 'C07.history', 'script': 'bounded/hist.py', 'timeout': 1200, 'args': {'prop': 'C07'}, 'bound': 'five equal-sized unchanged files given reversed / rotated / as their directory (no chunk object may be added); random histories of snapshot/delete/clean by owner, shared-key and independent-key users (and one unencrypted user): <= 10 operations, <= 4 paths per snapshot from 6 overlapping contents, chunks 8..64, 5 (thorough: 40) seeded histories per mode, each with one of three object lifetimes (a fresh Repository per command as the CLI does / one per user / ONE object re-unlocked with the key of whoever issues the next command); every remaining snapshot is restored by its owner after each destructive step; a scripted history deleting several snapshots in ONE call (two snapshots of unchanged data sharing chunks only with each other; two with distinct chunks, both name orders)'}]
TRUSTED = [
    'vf symbolic executor (/verif/vf): encoding of the Python subset (DESIGN 2.2)',
    'z3 5.1 (API + z3-new CLI), cvc5 1.0.3 (strings)',
]
ASSUMPTIONS = ['C10 determinism of the chunker; deterministic hashing', 'within one snapshot two workers may both see exists=False for one digest and both upload the same name with equivalent bytes: one object, two transfers (noted, not an obligation)', 'independent key families never alias (A-collision of the MAC)', 'backend interface as in C02']
MANIFEST = {
    'text': "Deductive proof that the storage name and the payload key of a chunk are functions of the shared family secrets and the content digest only, that the chunker is keyed by the family's chunker key, that a payload is transferred only when the existence check answered absent, and that each digest has one table index.",
    'note': 'Trusted: vf engine, SMT solvers, crypto assumptions. The exact-set statement over histories follows from these contracts with C02/C08 (lemma stated in DESIGN 6/C07).',
    'technique': 'contract-based deductive verification: sidecar contracts + loop invariants on the real functions, VCs by symbolic execution of the AST, discharged by z3/cvc5',
    'design_ref': 'DESIGN.md 6/C07',
}
