"""Contracts for Repository.restore's closures and planning loop
(C01, C04, C06, C09, C15)."""
from __future__ import annotations

import z3

from vf import sym, models, ops
from vf.sym import SV, INT, BOOL, STR, BYTES, Opt, Tup, List, Set, Dict, Ref, Cls
from vf.interp import Model, Raised, Exc, Obj, LoopSpec, IterSpec, Closure
from vf.unit import Unit, Lemma
from vf.ops import CM, MethodModel
from specs import shared, gc
from specs.shared import REPO_PY, UF, H, KDF, DEC, ENC

REF = Tup(STR, INT, INT, INT)          # (file_path, chunk_size, stream_start, start)
PATHT = models.opaque_type('PathObj')
META = models.opaque_type('Meta', pytype='dict')
FUTURE = models.opaque_type('Future')
DIGESTSET = sym.SetC(BYTES)
DIGESTSET.guarded_by = None            # set below per unit
FMETA = Tup(PATHT, Opt(META))


def B(z):
    return UF('B', STR, BYTES)(z)


class Stream(CM):
    """io.BytesIO and its wrappers (TQDM / rate limiter): the payload lives in ghost `content`"""

    def __init__(self, name, inner=None):
        super().__init__(name)
        self.inner = inner

    def root(self):
        s = self
        while s.inner is not None:
            s = s.inner
        return s

    def vf_getattr(self, interp, st, name):
        if name == 'getvalue':
            root = self.root()
            yield st, Model('getvalue', lambda i, s, a, k: iter([(s, s.ghost[f'content:{id(root)}'])]))
        else:
            raise sym.Unsupported(f'stream attribute {name}')


def slot_cm(kind='slot'):
    def on_enter(interp, st, cm):
        st.emit('slot_acquire')
        st.ghost['slots_held'] = st.ghost.get('slots_held', 0) + 1
        yield st, sym.fresh(INT, 'slot')

    def on_exit(interp, st, cm, out):
        st.emit('slot_release')
        st.ghost['slots_held'] = st.ghost.get('slots_held', 0) - 1
        yield st, out

    return CM(kind, on_enter, on_exit)


def download_chunk_setup(b, guarded=False):
    me = shared.repo_self(b)
    b.me = me
    digest = b.sym('digest', BYTES)
    refs = b.ref('refs', sym.ListC(REF))
    b.assume(b.st.heap.read(sym.ListC(REF), 'len', refs.z) >= 0)
    b.bind('loop', Obj('loop'))
    b.sym('download_chunk_size', INT)
    b.bind('glock', models.lock_cm('glock'))
    files_digests = b.ref('files_digests', sym.DictC(STR, Ref(DIGESTSET)))
    files_metadata = b.ref('files_metadata', sym.DictC(STR, FMETA))
    b.ref('files_sizes', sym.DictC(STR, INT))

    def os_truncate(interp, st, args, kwargs):
        st.emit('truncate_path', path=args[0], size=args[1])
        yield st, None

    b.bind('os', Obj('os', truncate=Model('os.truncate', os_truncate)))
    if guarded:
        for c in (DIGESTSET, sym.DictC(STR, Ref(DIGESTSET)), sym.DictC(STR, FMETA)):
            c.guarded_by = 'glock'
    else:
        for c in (DIGESTSET, sym.DictC(STR, Ref(DIGESTSET)), sym.DictC(STR, FMETA)):
            c.guarded_by = None
    RATELIM = models.opaque_type('RateLimiter', attrs={
        'wrap': MethodModel('wrap', lambda i, s, a, k: iter([(s, Stream('limited', inner=a[1]))]))})
    b.sym('rate_limiter', Opt(RATELIM))

    def bytesio(interp, st, args, kwargs):
        s = Stream('bytesio')
        st.ghost[f'content:{id(s)}'] = b''
        yield st, s

    def tqdm_writer(interp, st, args, kwargs):
        yield st, Stream('tqdm', inner=args[0])

    def run_cts(interp, st, args, kwargs):
        func, location, stream = args[0], args[1], args[2]
        fail = st.copy()
        fail.emit('download_failed', location=location)
        yield fail, Raised(Exc('AnyError'))
        st.emit('download_stream', location=location, func=func, slots=st.ghost.get('slots_held', 0))
        # assumed backend interface: download_stream(name, stream) leaves B[name] in the stream
        st.ghost[f'content:{id(stream.root())}'] = SV(BYTES, B(sym.lift(location, STR).z))
        yield st, None

    def submit(interp, st, args, kwargs):
        fn, ref, view = args
        st.emit('submit', fn=fn, ref=ref, view=view)
        yield st, sym.fresh(FUTURE, 'future')

    def as_completed(interp, st, args, kwargs):
        (lst,) = args
        yield st, ops.iterspec(interp, st, lst)

    def future_result(interp, st, args, kwargs):
        fail = st.copy()
        yield fail, Raised(Exc('AnyError'))
        yield st, None

    FUTURE.attrs = {'result': MethodModel('result', future_result)}

    def restore_metadata(interp, st, args, kwargs):
        st.emit('restore_metadata', path=args[0], metadata=args[1])
        yield st, None

    def loc_model(interp, st, args, kwargs):
        yield st, SV(STR, gc.loc(sym.lift(args[0], BYTES).z))

    me._attrs.update({
        '_chunk_digest_to_location': Model('loc', loc_model),
        '_acquire_slot_threadsafe': Model('_acquire_slot_threadsafe', lambda i, s, a, k: iter([(s, slot_cm())])),
        '_maybe_run_coroutine_threadsafe': Model('_maybe_run_coroutine_threadsafe', run_cts),
        'restore_metadata': Model('restore_metadata', restore_metadata),
        'backend': Obj('backend', download_stream=Obj('backend.download_stream')),
    })
    b.bind('io', Obj('io', BytesIO=Model('BytesIO', bytesio)))
    b.bind('utils', Obj('utils', TQDMIOWriter=Model('TQDMIOWriter', tqdm_writer)))
    b.bind('writer', Obj('writer', submit=Model('submit', submit)))
    b.bind('concurrent', Obj('concurrent', futures=Obj('futures', as_completed=Model('as_completed', as_completed))))
    b.bind('_write_chunk_ref', Obj('_write_chunk_ref'))
    b.digest = digest


def download_chunk_loops():
    true_inv = lambda ctx: (ctx.k <= ctx.n) if ctx.n is not None else z3.BoolVal(True)
    return {
        'For#1': LoopSpec(true_inv, modifies=[('heap_at', sym.ListC(FUTURE), 'arr', ['writer_futures']),
                                             ('heap_at', sym.ListC(FUTURE), 'len', ['writer_futures']),
                                             ('heap_at', sym.SetC(STR), 'm', ['referenced_paths'])], name='submit_loop'),
        'For#2': LoopSpec(true_inv, modifies=[], name='wait_loop'),
        'For#3': LoopSpec(true_inv, modifies=[('heap', DIGESTSET, 'm'),
                                             ('heap', sym.DictC(STR, FMETA), 'has'),
                                             ('heap', sym.DictC(STR, FMETA), 'n')],
                          name='finish_loop', types={'restore_path': PATHT, 'metadata': Opt(META), 'finished': BOOL}),
    }


DC_LOCALS = {'writer_futures': List(FUTURE), 'referenced_paths': Set(STR)}


def authentic(view, x, d):
    """Authentic(x, d): x hashes to d, or (encrypted) x came out of a successful AEAD decryption under the
    key derived from d (honest ciphertexts under that key carry a plaintext hashing to d: C14.chunk.body)"""
    Hf = H()
    c = z3.Const('auth_c', z3.StringSort())
    return z3.Or(Hf(x) == d,
                 z3.And(view.encrypted, z3.Exists([c], z3.And(x == DEC()(c, view.subkey(d)),
                                                              c == ENC()(x, view.subkey(d), shared.NONCE_OF()(c))))))


def c04_download_chunk_post(prop):
    def post(res):
        b = res.builder
        d = b.digest.z
        n_submit = 0
        for p in res.all_paths():
            n_submit += len(p.events('submit'))
            view = shared.PropsView(p.st, b.me.props)
            dls = p.events('download_stream')
            for e in dls:
                res.oblige(p.pc_at(e), f'{prop}.chunk.location_from_digest', sym.lift(e.data['location'], STR).z == gc.loc(d))
            for e in p.events('submit'):
                pc = p.pc_at(e)
                v = sym.lift(e.data['view'], BYTES).z
                # C04.chunk.verified_before_write
                res.oblige(pc, f'{prop}.chunk.verified_before_write', authentic(view, v, d))
                # the view is the (decrypted) payload of the object at loc(digest)
                res.oblige(pc, f'{prop}.chunk.view_is_payload', z3.If(
                    view.encrypted, v == DEC()(B(gc.loc(d)), view.subkey(d)), v == B(gc.loc(d))))
            for e in p.events('decrypt_ok') + p.events('decrypt_failed'):
                res.oblige(p.pc_at(e), f'{prop}.chunk.key_bound_to_digest',
                           sym.lift(e.data['key'], BYTES).z == view.subkey(d))
            if p.kind == 'raise' and p.value.cls in ('DecryptionError', 'ReplicatError'):
                # a damaged object ends in an error before anything is handed to a writer
                res.oblige(p, f'{prop}.chunk.no_write_on_corruption[{p.value.cls}]', z3.BoolVal(not p.events('submit')))
            if p.kind in ('return', 'normal'):
                # no_swallow: a normal return means the object was downloaded, verified and every ref submitted
                res.oblige(p, f'{prop}.chunk.return_implies_downloaded', z3.BoolVal(len(dls) == 1))
        res.oblige([], f'{prop}.chunk.submit_sites_checked', z3.BoolVal(n_submit >= 1))
    return post


def download_chunk_unit(prop, post, guarded=False):
    return Unit(f'{prop}.download_chunk', REPO_PY, 'Repository.restore._download_chunk',
                lambda b: download_chunk_setup(b, guarded), post, loops=download_chunk_loops(),
                local_types=DC_LOCALS, prop=prop)


# ------------------------------------------------------------------ _write_file_part
def zeros(n):
    return UF('zeros', INT, BYTES)(n)


class FileModel:
    """io semantics of one regular file as a byte sequence with a position (assumed, audited)"""

    def __init__(self, b):
        self.b = b


def byte_at(z, i):
    """ghost: i-th byte of a bytes value (0 <= i < len)"""
    return UF('byte_at', BYTES, INT, INT)(z, i)


def write_part_setup(b):
    """File model (assumed io semantics, audited): a regular file is (bytes: Array Int->Int, length)
    with a position.  truncate(n) cuts or zero-extends; write(d) at pos <= len overwrites/extends."""
    me = shared.repo_self(b, props=False, cache=False)
    data = b.sym('data', BYTES)
    off = b.sym('offset', INT)
    b.assume(off.z >= 0)
    exists = sym.const(BOOL, 'target_exists')
    old_arr = z3.Const('old_bytes', z3.ArraySort(z3.IntSort(), z3.IntSort()))
    old_len = z3.Int('old_len')
    b.assume(old_len >= 0)
    b.exists, b.old_arr, b.old_len, b.data, b.off = exists, old_arr, old_len, data, off
    b.st.ghost['f_arr'] = old_arr
    b.st.ghost['f_len'] = old_len
    b.ghost('pos', SV(INT, z3.IntVal(0)))
    b.ghost('exists', exists)
    FOBJ = models.opaque_type('RWFile')
    i = z3.Int('fm_i')

    def seek(interp, st, args, kwargs):
        offset = args[1]
        whence = args[2] if len(args) > 2 else 0
        if whence == 0:
            newpos = sym.lift(offset, INT).z
        elif whence == 2:
            newpos = st.ghost['f_len'] + sym.lift(offset, INT).z
        else:
            raise sym.Unsupported('seek whence')
        st.ghost['pos'] = SV(INT, newpos)
        st.emit('seek', pos=SV(INT, newpos))
        yield st, SV(INT, newpos)

    def truncate(interp, st, args, kwargs):
        size = sym.lift(args[1], INT).z
        arr, n = st.ghost['f_arr'], st.ghost['f_len']
        interp.oblige(st, 'io.truncate_size_nonneg', size >= 0, tag='helper')
        st.ghost['f_arr'] = z3.Lambda([i], z3.If(i < n, z3.Select(arr, i), 0))
        st.ghost['f_len'] = size
        st.emit('truncate', size=SV(INT, size))
        yield st, SV(INT, size)

    def write(interp, st, args, kwargs):
        d = sym.lift(args[1], BYTES).z
        arr, n, pos = st.ghost['f_arr'], st.ghost['f_len'], st.ghost['pos'].z
        ld = z3.Length(d)
        # writing at pos <= len: overwrite/extend (pos > len would zero-fill: excluded by an obligation)
        interp.oblige(st, 'io.write_within_or_at_end', z3.And(0 <= pos, pos <= n), tag='helper')
        st.ghost['f_arr'] = z3.Lambda([i], z3.If(z3.And(pos <= i, i < pos + ld), byte_at(d, i - pos), z3.Select(arr, i)))
        st.ghost['f_len'] = z3.If(pos + ld > n, pos + ld, n)
        st.ghost['pos'] = SV(INT, pos + ld)
        st.emit('write', data=args[1], at=SV(INT, pos))
        yield st, SV(INT, ld)

    FOBJ.attrs = {'seek': MethodModel('seek', seek), 'truncate': MethodModel('truncate', truncate),
                  'write': MethodModel('write', write)}
    FOBJ.cm_enter = lambda i_, s2, cm: iter([(s2, cm)])
    FOBJ.cm_exit = lambda i_, s2, cm, out: iter([(s2, out)])

    def open_(interp, st, args, kwargs):
        mode = args[1]
        if mode == 'r+b':
            for s, ex in interp.branch(st, st.ghost['exists'].z):
                if ex:
                    s.ghost['pos'] = SV(INT, z3.IntVal(0))
                    s.emit('open', mode=mode)
                    yield s, sym.fresh(FOBJ, 'f')
                else:
                    yield s, Raised(Exc('FileNotFoundError'))
        elif mode == 'wb':
            st.ghost['f_len'] = z3.IntVal(0)
            st.ghost['pos'] = SV(INT, z3.IntVal(0))
            st.ghost['exists'] = SV(BOOL, z3.BoolVal(True))
            st.emit('open', mode=mode)
            yield st, sym.fresh(FOBJ, 'f')
        else:
            raise sym.Unsupported(f'open mode {mode}')

    PATHT.attrs = dict(getattr(PATHT, 'attrs', {}))
    PATHT.attrs.update({'open': MethodModel('open', open_),
                        'parent': Obj('parent', mkdir=Model('mkdir', lambda i_, s, a, k: iter([(s, None)])))})
    b.sym('path', PATHT)
    b.bind('io', Obj('io', SEEK_END=2))


def write_part_post(prop):
    def post(res):
        b = res.builder
        data, off = b.data.z, b.off.z
        ld = z3.Length(data)
        i = z3.Int('wp_i')
        for p in res.paths:
            sig = ','.join(e.data.get('mode', '') for e in p.events('open')) + '->' + p.kind
            if p.kind not in ('normal', 'return'):
                res.oblige(p, f'{prop}.write.total[{sig}]', z3.BoolVal(False))
                continue
            arr, n = p.st.ghost['f_arr'], p.st.ghost['f_len']
            nb = z3.If(b.exists.z, b.old_len, 0)
            old = lambda ii: z3.If(z3.And(b.exists.z, ii < b.old_len), z3.Select(b.old_arr, ii), 0)
            # effect + frame, pointwise: the data lands at [off, off+len), every other byte below the
            # old length is preserved, a gap up to `off` is zero-filled, length = max(old length, off+len)
            res.oblige(p, f'{prop}.write.data_lands_at_offset[{sig}]', z3.ForAll([i], z3.Implies(
                z3.And(off <= i, i < off + ld), z3.Select(arr, i) == byte_at(data, i - off))))
            res.oblige(p, f'{prop}.write.length[{sig}]', n == z3.If(nb > off + ld, nb, off + ld))
            res.oblige(p, f'{prop}.write.other_bytes_preserved[{sig}]', z3.ForAll([i], z3.Implies(
                z3.And(0 <= i, i < n, z3.Or(i < off, i >= off + ld)), z3.Select(arr, i) == old(i))))
    return post


def write_part_unit(prop):
    return Unit(f'{prop}.write_file_part', REPO_PY, 'Repository._write_file_part', write_part_setup,
                write_part_post(prop), prop=prop)


# ------------------------------------------------------------------ the planning loop of restore()
from specs.shared import SNAPDATA, BODY, CHUNKLIST, chunk_at, chunk_len, chunkset, body_chunks, body_data
from specs import snapbody

ENTRYREC = Cls('EntryRec', {'range': List(INT), 'index': INT, 'counter': INT}, keyed=True)
FILEREC = Cls('FileRec', {'path': STR, 'chunks': List(Ref(ENTRYREC)), 'digest': Opt(BYTES),
                          'metadata': Opt(META)}, keyed=True)
REFS = sym.DictC(BYTES, List(REF))
REFS.default = lambda interp, st: ops.new_list(st, REF, [])
PARTS = models.opaque_type('PathParts')


def files_of(z):
    return UF('files_of', SNAPDATA, INT)(z)


def _snapdata_getitem(interp, st, v, idx):
    if idx == 'files':
        yield st, SV(List(Ref(FILEREC)), files_of(v.z))
    elif idx == 'utc_timestamp':
        yield st, SV(STR, UF('utc_timestamp', SNAPDATA, STR)(v.z))
    else:
        raise sym.Unsupported(f'snapshot_data[{idx!r}]')


SNAPDATA.getitem = _snapdata_getitem


def restore_to_fn(base, file_path):
    return UF('restore_to', PATHT, STR, PATHT)(base, file_path)


def psum(lst, k):
    """ghost: sum of the sizes of the first k refs of an ordered chunk list"""
    return UF('psum', INT, INT, INT)(lst, k)


def plan_setup(b):
    me = shared.repo_self(b, props=False, cache=False)
    h = b.st.heap
    snaps = b.ref('snapshots', sym.ListC(BODY))
    b.snaps = snaps
    LB = sym.ListC(BODY)
    n = h.read(LB, 'len', snaps.z)
    arr = h.read(LB, 'arr', snaps.z)
    b.assume(n >= 0)
    i = z3.Int('pl_i')
    # every body in the plan is readable (restore filters `data is not None`: obligation C06.restore.own_only)
    b.assume(z3.ForAll([i], z3.Implies(z3.And(0 <= i, i < n), z3.Not(Opt(SNAPDATA).is_none(body_data(z3.Select(arr, i)))))))
    b.sym('file_re', Opt(snapbody.REGEX))
    b.sym('path', PATHT)
    b.ref('chunks_references', REFS)
    b.ref('files_digests', sym.DictC(STR, Ref(DIGESTSET)))
    b.ref('files_metadata', sym.DictC(STR, FMETA))
    b.ref('files_sizes', sym.DictC(STR, INT))
    b.sym('total_bytes', INT)
    for c in (DIGESTSET, sym.DictC(STR, Ref(DIGESTSET)), sym.DictC(STR, FMETA)):
        c.guarded_by = None
    # format invariant of recorded entries: range = [r0, r1] (two integers)
    r = z3.Int('pl_r')
    LI = sym.ListC(INT)
    b.assume(z3.ForAll([r], h.read(LI, 'len', h.read(ENTRYREC, 'range', r)) == 2))
    # well-formed heap: list lengths are non-negative
    b.assume(z3.ForAll([r], h.read(sym.ListC(Ref(ENTRYREC)), 'len', r) >= 0))
    b.assume(z3.ForAll([r], h.read(sym.ListC(Ref(FILEREC)), 'len', r) >= 0))
    b.assume(z3.ForAll([r], h.read(sym.ListC(REF), 'len', r) >= 0))
    # all input objects live below the allocation frontier
    b.assume(z3.ForAll([r], z3.And(h.read(FILEREC, 'chunks', r) < b.st.alloc_base, h.read(ENTRYREC, 'range', r) < b.st.alloc_base)))

    def path_ctor(interp, st, args, kwargs):
        if len(args) == 1 and not isinstance(args[0], sym.ops_StarArg if False else tuple):
            a0 = args[0]
            if isinstance(a0, SV) and a0.ty == STR:
                yield st, SV(PATHT, UF('path_of_str', STR, PATHT)(a0.z))
                return
        if len(args) == 2:
            from vf.interp import StarArg
            base, rest = args
            if isinstance(rest, StarArg) and isinstance(rest.v, SV) and rest.v.ty == PARTS:
                src = UF('parts_source', PARTS, STR)(rest.v.z)
                st.emit('restore_to', base=base, source=SV(STR, src))
                yield st, SV(PATHT, restore_to_fn(base.z, src))
                return
        raise sym.Unsupported('Path(...) form')

    def parts_prop(interp, st, v):
        # Path(s).parts: an opaque sequence that remembers its source string
        src = UF('str_of_path', PATHT, STR)(v.z)
        p = sym.fresh(PARTS, 'parts')
        st.assume(UF('parts_source', PARTS, STR)(p.z) == src)
        st.assume(UF('parts_from', PARTS, INT)(p.z) == 0)
        yield st, p

    def parts_slice(interp, st, v, lo, hi):
        if lo != 1 or hi is not None:
            raise sym.Unsupported('parts slice')
        p = sym.fresh(PARTS, 'parts1')
        st.assume(UF('parts_source', PARTS, STR)(p.z) == UF('parts_source', PARTS, STR)(v.z))
        st.assume(UF('parts_from', PARTS, INT)(p.z) == 1)
        yield st, p

    PARTS.getslice = parts_slice
    PATHT.attrs = dict(getattr(PATHT, 'attrs', {}))
    PATHT.attrs.update({'parts': ops.Property(parts_prop),
                        'resolve': MethodModel('resolve', lambda i, s, a, k: iter([(s, a[0])]))})
    b.bind('Path', Model('Path', path_ctor))
    # path_of_str / str_of_path are inverse
    x = z3.Const('pl_x', z3.StringSort())
    b.assume(z3.ForAll([x], UF('str_of_path', PATHT, STR)(UF('path_of_str', STR, PATHT)(x)) == x))


def plan_loops(b_holder):
    def files_keys(st):
        fd = st.lookup('files_digests')
        return st.heap.read(sym.DictC(STR, Ref(DIGESTSET)), 'has', fd.z)

    def inv_outer(ctx):
        return ctx.k <= ctx.n

    def inv_files(ctx):
        # keys are only ever added (first occurrence wins: nothing planned earlier is disturbed)
        E = ctx.entry
        has0, has1 = files_keys(E), files_keys(ctx.st)
        p = z3.Const('pf_p', z3.StringSort())
        fm = sym.DictC(STR, FMETA)
        m0 = E.heap.read(fm, 'val', E.lookup('files_metadata').z)
        m1 = ctx.st.heap.read(fm, 'val', ctx.st.lookup('files_metadata').z)
        return z3.And(ctx.k <= ctx.n,
                      z3.ForAll([p], z3.Implies(z3.Select(has0, p), z3.And(z3.Select(has1, p), z3.Select(m1, p) == z3.Select(m0, p)))))

    def inv_chunks(ctx):
        st = ctx.st
        oc_ = _walked(ctx.entry, 'For#3').z
        return z3.And(ctx.k <= ctx.n, ctx.v('chunk_position') == psum(oc_, ctx.k))

    all_mod = [
        ('heap', REFS, 'has'), ('heap', REFS, 'val'), ('heap', REFS, 'n'), ('heap', REFS, 'order'),
        ('heap', sym.ListC(REF), 'arr'), ('heap', sym.ListC(REF), 'len'),
        ('heap', DIGESTSET, 'm'),
    ]
    dict_mod = lambda c: [('heap', c, 'has'), ('heap', c, 'val'), ('heap', c, 'n'), ('heap', c, 'order')]
    files_mod = all_mod + dict_mod(sym.DictC(STR, Ref(DIGESTSET))) + dict_mod(sym.DictC(STR, FMETA)) + dict_mod(sym.DictC(STR, INT)) + [
        ('heap', sym.ListC(BOOL), 'arr'), ('heap', sym.ListC(BOOL), 'len'),       # temporaries of comprehensions
        ('heap', sym.ListC(Ref(ENTRYREC)), 'arr'), ('heap', sym.ListC(Ref(ENTRYREC)), 'len')]
    def psum_axioms(ctx):
        st = ctx.st
        h = st.heap
        oc_ = _walked(st, 'For#3').z
        k = z3.Int('ps_k')
        LI = sym.ListC(INT)
        ent = lambda kk: ctx.elem(kk).z
        rng = lambda kk: h.read(ENTRYREC, 'range', ent(kk))
        size = lambda kk: z3.Select(h.read(LI, 'arr', rng(kk)), 1) - z3.Select(h.read(LI, 'arr', rng(kk)), 0)
        return [psum(oc_, 0) == 0,
                z3.ForAll([k], z3.Implies(k >= 0, psum(oc_, k + 1) == psum(oc_, k) + size(k)))]

    l3 = LoopSpec(inv_chunks, modifies=all_mod, name='For#3')
    l3.at_entry = psum_axioms
    return {
        'For#1': LoopSpec(inv_outer, modifies=files_mod, name='For#1',
                          types={}),
        'For#2': LoopSpec(inv_files, modifies=files_mod, name='For#2'),
        'For#3': l3,
    }


def _walked(st, loop):
    """the list the loop walks (recorded by the engine), whatever the code calls it"""
    v = st.ghost.get('$iter_' + loop)
    if isinstance(v, SV):
        return v
    return st.lookup('ordered_chunks')


def plan_post(prop):
    def post(res):
        b = res.builder
        LI = sym.ListC(INT)
        n_inner = 0
        # ---- For#3: one ref per recorded chunk entry, offsets are the partial sums (C01.plan.offsets)
        for p in res.body_paths('For#3'):
            st = p.st
            if p.kind not in ('normal', 'continue'):
                if p.kind == 'raise' and p.value.cls == 'IndexError':
                    continue     # index outside the chunk table: restore fails loudly (format violation)
                res.oblige(p, f'{prop}.plan.inner_total[{p.kind}]', z3.BoolVal(False))
                continue
            n_inner += 1
            apps = [e for e in p.events('list_append') if e.data['target'].ty == List(REF)]
            res.oblige(p, f'{prop}.plan.one_ref_per_entry', z3.BoolVal(len(apps) == 1))
            if len(apps) != 1:
                continue
            t = apps[0].data['value'].z
            cd = st.lookup('chunk_data').z
            h = st.heap
            rng = h.read(ENTRYREC, 'range', cd)
            r0, r1 = z3.Select(h.read(LI, 'arr', rng), 0), z3.Select(h.read(LI, 'arr', rng), 1)
            oc_ = _walked(st, 'For#3').z
            kk = [v for k_, v in st.ghost.items()]
            fpath = st.lookup('file_path').z
            res.oblige(p, f'{prop}.plan.ref_size_is_range_length', REF.proj(t, 1) == r1 - r0)
            res.oblige(p, f'{prop}.plan.ref_chunk_offset_is_range_start', REF.proj(t, 3) == r0)
            res.oblige(p, f'{prop}.plan.ref_path', REF.proj(t, 0) == fpath)
            # file offset = sum of the sizes of the refs before it in counter order
            srt = [e for e in p.events('sorted')]
            kq = [x for x in st.pc if False]
            res.oblige(p, f'{prop}.plan.file_offset_is_partial_sum',
                       z3.Exists([z3.Int('kx')], z3.And(z3.Int('kx') >= 0, REF.proj(t, 2) == psum(oc_, z3.Int('kx')),
                                                      st.lookup('chunk_position').z == psum(oc_, z3.Int('kx') + 1))))
            # digest comes from the snapshot's own chunk table at the recorded index, and the ref is filed under it
            dg = st.lookup('digest').z
            sc = st.lookup('snapshot_chunks').z
            res.oblige(p, f'{prop}.plan.digest_is_table_entry', dg == chunk_at(sc, h.read(ENTRYREC, 'index', cd)))
            refs_d = sym.DictC(BYTES, List(REF))
            crefs = st.lookup('chunks_references').z
            res.oblige(p, f'{prop}.plan.ref_filed_under_digest', z3.And(
                z3.Select(h.read(REFS, 'has', crefs), dg),
                apps[0].data['target'].z == z3.Select(h.read(REFS, 'val', crefs), dg)))
            fds = st.lookup('digests').z
            res.oblige(p, f'{prop}.plan.digest_pending_for_file', z3.Select(h.read(DIGESTSET, 'm', fds), dg))
        res.oblige([], f'{prop}.plan.inner_iterations_checked', z3.BoolVal(n_inner >= 1))
        # ---- For#2: which files are planned (C15.restore.selects_newest, first occurrence wins)
        n_files = 0
        for p in res.body_paths('For#2'):
            st = p.st
            E = None
            fd = st.lookup('file_data').z
            fpath = st.heap.read(FILEREC, 'path', fd)
            stores = [e for e in p.events('dict_store')]
            planned = [e for e in stores if e.data['target'].ty == Dict(STR, FMETA)]
            rx = st.lookup('file_re')
            filtered = z3.And(z3.Not(rx.ty.is_none(rx.z)),
                              Opt(snapbody.MATCH).is_none(snapbody.re_search(rx.ty.val(rx.z), fpath)))
            if p.kind == 'raise':
                continue
            n_files += 1
            if planned:
                e = planned[0]
                pc = p.pc_at(e)
                res.oblige(pc, f'{prop}.plan.planned_only_if_matching_and_new', z3.Not(filtered))
                res.oblige(pc, f'{prop}.plan.planned_key_is_this_path', sym.lift(e.data['key'], STR).z == fpath)
                for e2 in stores:
                    res.oblige(p.pc_at(e2), f'{prop}.plan.stores_only_under_this_path',
                               z3.Or(sym.lift(e2.data['key'], STR).z == fpath, z3.BoolVal(e2.data['target'].ty == Dict(BYTES, List(REF)))))
                # refs are walked in counter order (the order in which the chunks followed each other in the stream)
                if not p.events('sorted'):
                    # no ordering step at all: the parts would be placed in LIST order, which the format does not define
                    res.oblige(pc, f'{prop}.plan.refs_in_counter_order', z3.BoolVal(False))
                for se in p.events('sorted'):
                    x = z3.Int('so_x')
                    res.oblige(p.pc_at(se), f'{prop}.plan.refs_in_counter_order', z3.And(
                        se.data['keyf'](x) == p.st.heap.read(ENTRYREC, 'counter', x),
                        se.data['source'].z == p.st.heap.read(FILEREC, 'chunks', fd)))
                # restore target = base path + recorded path without its root
                rt = [x for x in p.events('restore_to')]
                res.oblige(pc, f'{prop}.plan.restore_to_from_recorded_path', z3.BoolVal(len(rt) == 1) if not rt else z3.And(
                    rt[0].data['source'].z == fpath, rt[0].data['base'].z == st.lookup('path').z))
                # the recorded size is the sum of all ref sizes, total_bytes grows by it
                if p.kind in ('normal', 'continue'):
                    fs = st.lookup('files_sizes').z
                    dsz = sym.DictC(STR, INT)
                    ocl = _walked(st, 'For#3').z
                    nn = st.heap.read(sym.ListC(Ref(ENTRYREC)), 'len', ocl)
                    res.oblige(p, f'{prop}.plan.file_size_is_sum_of_refs', z3.And(
                        z3.Select(st.heap.read(dsz, 'has', fs), fpath),
                        z3.Select(st.heap.read(dsz, 'val', fs), fpath) == psum(ocl, nn)))
            else:
                # skipped: already planned from a newer snapshot, or filtered out; nothing is touched
                res.oblige(p, f'{prop}.plan.skip_touches_nothing', z3.BoolVal(not stores and not p.events('list_append')))
        res.oblige([], f'{prop}.plan.file_iterations_checked', z3.BoolVal(n_files >= 3))
        # every readable snapshot is examined: the planning loops are never left early (a path that exists only in an
        # older snapshot must still be planned)
        early = [p for nm in ('For#1', 'For#2') for p in res.body_paths(nm) if p.kind == 'break']
        res.oblige([], f'{prop}.plan.no_early_exit_from_planning_loops', z3.BoolVal(not early))
    return post


def plan_unit(prop):
    holder = {}

    def setup(b):
        plan_setup(b)
        holder['b'] = b

    loops = plan_loops(holder)
    # definitional axioms of the ghost partial sums, instantiated for the list being walked
    def at_start_axioms(ctx):
        return []

    u = Unit(f'{prop}.restore_plan', REPO_PY, 'Repository.restore', setup, plan_post(prop), loops=loops,
             stmt='For#1', local_types={'digests': Set(BYTES)}, prop=prop)
    return u


# ------------------------------------------------------------------ _write_chunk_ref
LOCKT = models.opaque_type('Lock')


def _lock_enter(interp, st, cm):
    st.emit('acquire', lock=cm)
    st.locks_held = st.locks_held + (('flock', cm.z),)
    yield st, cm


def _lock_exit(interp, st, cm, out):
    st.emit('release', lock=cm)
    st.locks_held = tuple(x for x in st.locks_held if not (isinstance(x, tuple) and x[1].eq(cm.z)))
    yield st, out


LOCKT.cm_enter = _lock_enter
LOCKT.cm_exit = _lock_exit
# Lock.locked(): only says whether SOME thread holds the lock at this instant (nothing about threads that have fetched the
# lock object and are about to take it): an arbitrary boolean
LOCKT.attrs = {'locked': MethodModel('locked', lambda i, s, a, k: iter([(s, sym.fresh(BOOL, 'lock_is_held_right_now'))]))}
FLOCKS = sym.DictC(PATHT, LOCKT)
REFCOUNTS = sym.DictC(PATHT, INT)


def write_ref_setup(b):
    me = shared.repo_self(b, props=False, cache=False)
    b.me = me
    ref = b.sym('ref', REF)
    contents = b.sym('contents', BYTES)
    b.ref('files_metadata', sym.DictC(STR, FMETA))
    b.ref('flocks', FLOCKS)
    b.ref('flocks_refcounts', REFCOUNTS)
    b.bind('glock', models.lock_cm('glock'))
    for c in (FLOCKS, REFCOUNTS):
        c.guarded_by = 'glock'
    sym.DictC(STR, FMETA).guarded_by = None

    def lock_ctor(interp, st, args, kwargs):
        yield st, sym.fresh(LOCKT, 'newlock')

    b.bind('threading', Obj('threading', Lock=Model('Lock', lock_ctor)))

    def write_part(interp, st, args, kwargs):
        st.emit('write_file_part', path=args[0], data=args[1], offset=args[2])
        fail = st.copy()
        yield fail, Raised(Exc('AnyError'))
        yield st, None

    me._attrs['_write_file_part'] = Model('_write_file_part', write_part)
    b.ref_, b.contents = ref, contents
    # refcount invariant (helper): a lock exists iff its refcount is present and positive
    h = b.st.heap
    fl, rc = b.st.lookup('flocks'), b.st.lookup('flocks_refcounts')
    p = z3.Const('wr_p', PATHT.sort())
    b.assume(z3.ForAll([p], z3.Select(h.read(FLOCKS, 'has', fl.z), p) == z3.Select(h.read(REFCOUNTS, 'has', rc.z), p)))
    b.assume(z3.ForAll([p], z3.Implies(z3.Select(h.read(REFCOUNTS, 'has', rc.z), p), z3.Select(h.read(REFCOUNTS, 'val', rc.z), p) >= 1)))
    # the planner only produces refs with non-negative sizes/offsets (C01.plan + C01.done.attribution)
    b.assume(z3.And(REF.proj(ref.z, 1) >= 0, REF.proj(ref.z, 2) >= 0, REF.proj(ref.z, 3) >= 0))


def write_ref_post(prop):
    def post(res):
        b = res.builder
        ref, c = b.ref_.z, b.contents.z
        fpath, size, foff, coff = (REF.proj(ref, i) for i in range(4))
        h0 = b.st.heap
        fm = b.st.lookup('files_metadata')
        dst = FMETA.proj(z3.Select(h0.read(sym.DictC(STR, FMETA), 'val', fm.z), fpath), 0)
        nw = 0
        for p in res.paths:
            ws = p.events('write_file_part')
            sig = f'{len(ws)}->' + p.kind + (':' + p.value.cls if p.kind == 'raise' else '')
            if p.kind in ('normal', 'return'):
                res.oblige(p, f'{prop}.write_ref.exactly_one_write[{sig}]', z3.BoolVal(len(ws) == 1))
            for e in ws:
                nw += 1
                pc = p.pc_at(e)
                # C01: the planned slice of THIS chunk lands at the planned file offset of the planned target
                data = sym.lift(e.data['data'], BYTES).z
                n = z3.Length(c)
                res.oblige(pc, f'{prop}.write_ref.slice_offset_target[{sig}]', z3.And(
                    e.data['path'].z == dst,
                    sym.lift(e.data['offset'], INT).z == foff,
                    z3.Implies(coff + size <= n, data == z3.SubString(c, coff, size))))
                # C09.restore.file_mutex: the write happens under the per-target lock that is registered
                # for this target, and not under the global lock
                held = e.data['locks']
                res.oblige(pc, f'{prop}.write_ref.under_file_lock_only[{sig}]', z3.BoolVal(
                    any(isinstance(x, tuple) and x[0] == 'flock' for x in held) and 'glock' not in held))
            # C09.restore.guarded: the refcount tables are only touched under glock
            bad = [nt for nt in p.notes if nt[0] == 'unguarded']
            res.oblige(p, f'{prop}.write_ref.tables_guarded_by_glock[{sig}]', z3.BoolVal(not bad), meta={'unguarded': [str(x) for x in bad]})
            # the registration protocol of the per-file locks is an invariant of the two tables: a target has a lock entry iff
            # its count of registered writers (fetched the lock, not yet through the final section) is present and >= 1.
            # Two writers of one target therefore always meet on the SAME lock object: an entry is only dropped by the last
            # registered writer.  (Assumed on entry, re-established on every normal exit.)
            if p.kind in ('normal', 'return'):
                h1 = p.st.heap
                fl, rc = b.st.lookup('flocks'), b.st.lookup('flocks_refcounts')
                q = z3.Const('wr_q', PATHT.sort())
                res.oblige(p, f'{prop}.write_ref.lock_entry_iff_registered_writers[{sig}]', z3.ForAll([q], z3.And(
                    z3.Select(h1.read(FLOCKS, 'has', fl.z), q) == z3.Select(h1.read(REFCOUNTS, 'has', rc.z), q),
                    z3.Implies(z3.Select(h1.read(REFCOUNTS, 'has', rc.z), q), z3.Select(h1.read(REFCOUNTS, 'val', rc.z), q) >= 1))))
            # every acquired lock is released on every path (normal and exceptional)
            acq = sum(1 for e in p.st.events if e.kind == 'acquire')
            rel = sum(1 for e in p.st.events if e.kind == 'release')
            res.oblige(p, f'{prop}.write_ref.locks_released[{sig}]', z3.BoolVal(acq == rel and not p.st.locks_held))
        res.oblige([], f'{prop}.write_ref.write_sites_checked', z3.BoolVal(nw >= 2))
    return post


def write_ref_unit(prop):
    return Unit(f'{prop}.write_chunk_ref', REPO_PY, 'Repository.restore._write_chunk_ref', write_ref_setup,
                write_ref_post(prop), prop=prop)


# ------------------------------------------------------------------ restore(): which snapshots enter the plan, in which order
import ast as _ast


def _is_assign_to(name):
    return lambda s: isinstance(s, _ast.Assign) and isinstance(s.targets[0], _ast.Name) and s.targets[0].id == name


def select_setup(b):
    me = shared.repo_self(b, cache=False)
    b.me = me
    L = shared.Loaded()
    b.L = L
    b.sym('snapshot_regex', Opt(STR))

    def load(interp, st, args, kwargs):
        st.emit('load_snapshots', kwargs=dict(kwargs))
        yield st, IterSpec(L.n, lambda k: (SV(STR, L.path(k)), SV(BODY, L.body(k))))

    b.assume(L.n >= 0)
    me._attrs['_load_snapshots'] = Model('_load_snapshots', load)

    def snapdata_getitem(interp, st, v, idx):
        if idx == 'utc_timestamp':
            yield st, SV(STR, UF('utc_timestamp', SNAPDATA, STR)(v.z))
        elif idx == 'files':
            yield st, SV(List(Ref(FILEREC)), files_of(v.z))
        else:
            raise sym.Unsupported(f'snapshot_data[{idx!r}]')

    SNAPDATA.getitem = snapdata_getitem


def select_post(prop):
    def post(res):
        b = res.builder
        L = b.L
        for p in res.paths:
            if p.kind not in ('normal', 'return'):
                continue
            snaps = p.st.lookup('snapshots')
            lc = snaps.ty.cls
            n = p.st.heap.read(lc, 'len', snaps.z)
            arr = p.st.heap.read(lc, 'arr', snaps.z)
            j, j2, i = z3.Ints('sj sj2 si')
            ts = lambda body: UF('utc_timestamp', SNAPDATA, STR)(Opt(SNAPDATA).val(body_data(body)))
            # C06.restore.own_only: only bodies whose private part could be decrypted enter the plan
            res.oblige(p, f'{prop}.select.only_readable_bodies', z3.ForAll([j], z3.Implies(
                z3.And(0 <= j, j < n), z3.Not(Opt(SNAPDATA).is_none(body_data(z3.Select(arr, j)))))))
            # every plan entry is a loaded body, and every readable loaded body is in the plan
            res.oblige(p, f'{prop}.select.entries_are_loaded_bodies', z3.ForAll([j], z3.Implies(
                z3.And(0 <= j, j < n), z3.Exists([i], z3.And(0 <= i, i < L.n, z3.Select(arr, j) == L.body(i))))))
            fc, so = p.events('filter_comp'), p.events('sorted')
            if len(fc) == 1 and len(so) == 1:
                w = lambda ii: so[0].data['pinv'](fc[0].data['finv'](ii))       # explicit witness position
                res.oblige(p, f'{prop}.select.all_readable_bodies_included', z3.ForAll([i], z3.Implies(
                    z3.And(0 <= i, i < L.n, L.readable(i)), z3.And(0 <= w(i), w(i) < n, z3.Select(arr, w(i)) == L.body(i)))))
            else:
                res.oblige(p, f'{prop}.select.all_readable_bodies_included', z3.BoolVal(False))
            # C15.restore.selects_newest: newest first (descending timestamp text), so the first occurrence of a
            # path in the planning loop is the newest one
            res.oblige(p, f'{prop}.select.newest_first', z3.ForAll([j, j2], z3.Implies(
                z3.And(0 <= j, j <= j2, j2 < n), ts(z3.Select(arr, j2)) <= ts(z3.Select(arr, j)))))
            lr = p.events('load_snapshots')
            rx = b.st.lookup('snapshot_regex')
            res.oblige(p, f'{prop}.select.snapshot_filter_forwarded', z3.BoolVal(len(lr) == 1) if len(lr) != 1 else z3.BoolVal(
                lr[0].data['kwargs'].get('snapshot_regex') is rx))
    return post


def select_unit(prop):
    return Unit(f'{prop}.restore_select', REPO_PY, 'Repository.restore', select_setup, select_post(prop),
                stmt=(_is_assign_to('snapshots_gen'), _is_assign_to('file_re')), prop=prop)


# ------------------------------------------------------------------ restore(): loaders are started for every planned chunk,
# and the failure of any of them fails the command (C04: no silent partial restore; C01: every reference is written)
class _GenOver:
    """`(elt for x in S)` over a symbolic collection: the collection and the element evaluated for a generic x"""
    def __init__(self, over, item, elt):
        self.over, self.item, self.elt = over, item, elt


class _ExecCall:
    def __init__(self, recv, args):
        self.recv, self.args = recv, args


def _with_gather(stmt):
    return isinstance(stmt, (_ast.With, _ast.AsyncWith)) and 'gather' in _ast.unparse(stmt)


def restore_tail_setup(b):
    me = shared.repo_self(b)
    b.me = me
    ITEMS = models.opaque_type('ChunkRefItems')
    ITEM = models.opaque_type('ChunkRefItem')
    REFS_T = models.opaque_type('ChunkRefs', pytype='dict')
    refs = sym.fresh(REFS_T, 'chunks_references')
    b.refs = refs

    def items(interp, st, args, kwargs):
        yield st, SV(ITEMS, UF('refs_items', REFS_T, ITEMS)(args[0].z))

    REFS_T.attrs = {'items': MethodModel('items', items)}

    def comprehension(interp, st, itv, node):
        gen = node.generators[0]
        if gen.ifs or len(node.generators) != 1:
            # a filtered generator starts loaders for a subset only
            st.emit('filtered_generator')
        x = sym.fresh(ITEM, 'ref_item')
        saved = st.cur
        st.push_frame(saved)
        interp.assign_target(st, gen.target, x)
        outs = list(interp.ev(node.elt, st))
        if len(outs) != 1:
            raise sym.Unsupported('generator element forks')
        s2, v = outs[0]
        s2.cur = saved
        yield s2, _GenOver(itv, x, v)

    ITEMS.comprehension = comprehension
    b.bind('chunks_references', refs)
    FD = models.opaque_type('FilesDigests', pytype='dict')
    b.bind('files_digests', sym.fresh(FD, 'files_digests'))
    b.fd = b.st.lookup('files_digests')
    b.bind('finished_tracker', CM('tqdm'))
    b.bind('bytes_tracker', CM('tqdm'))
    LOADER = models.opaque_type('Executor')
    b.bind('loader', sym.fresh(LOADER, 'loader'))
    FN = models.opaque_type('LoaderFn')
    b.bind('_download_chunk', sym.fresh(FN, '_download_chunk'))

    def run_in_executor(interp, st, args, kwargs):
        yield st, _ExecCall('loop', list(args))

    b.bind('loop', Obj('loop', run_in_executor=Model('run_in_executor', run_in_executor)))

    def gather(interp, st, args, kwargs):
        rex = kwargs.get('return_exceptions', False)
        st.emit('gather', args=list(args), return_exceptions=rex)
        bad = st.copy()
        bad.emit('loader_failed')
        if rex is False:
            yield bad, Raised(Exc('AnyError'))
        else:
            # the failed loader's exception comes back as a RESULT: an arbitrary exception (a missing object is
            # FileNotFoundError / an HTTP error, not a ReplicatError)
            yield bad, bad.new_py('list', [Exc('AnyError')])
        st.emit('loaders_ok')
        yield st, st.new_py('list', [None])

    b.bind('asyncio', Obj('asyncio', gather=Model('asyncio.gather', gather)))

    def namespace(interp, st, args, kwargs):
        st.emit('result', kwargs=dict(kwargs))
        yield st, sym.fresh(models.opaque_type('Namespace'), 'result')

    b.bind('utils', Obj('utils', DefaultNamespace=Model('DefaultNamespace', namespace)))

    def list_(interp, st, args, kwargs):
        yield st, _ExecCall('list', list(args))

    b.bind('list', Model('list', list_))


def restore_tail_post(prop):
    def post(res):
        b = res.builder
        n_bad = n_ok = 0
        for p in res.paths:
            kinds = [e.kind for e in p.st.events]
            g = p.events('gather')
            ok_shape = False
            if len(g) == 1 and len(g[0].data['args']) == 1:
                a = g[0].data['args'][0]
                a = getattr(a, 'v', a)
                if isinstance(a, _GenOver) and isinstance(a.elt, _ExecCall) and a.elt.recv == 'loop' and len(a.elt.args) == 3:
                    ex, fn, star = a.elt.args
                    over_ok = isinstance(a.over, SV) and z3.eq(a.over.z, UF('refs_items', b.refs.ty, a.over.ty)(b.refs.z))
                    ok_shape = (over_ok and ex is b.st.lookup('loader') and fn is b.st.lookup('_download_chunk')
                                and getattr(star, 'v', None) is a.item and 'filtered_generator' not in kinds)
            # one loader per planned chunk reference: _download_chunk(digest, refs) for EVERY item of chunks_references
            res.oblige(p, f'{prop}.restore_tail.loader_for_every_planned_chunk', z3.BoolVal(ok_shape))
            if 'loader_failed' in kinds:
                n_bad += 1
                # whatever the failure of a loader is (missing object, I/O error, digest mismatch), restore fails
                res.oblige(p, f'{prop}.restore_tail.any_loader_failure_fails_restore', z3.BoolVal(p.kind == 'raise'))
            elif 'loaders_ok' in kinds:
                n_ok += 1
                r = p.events('result')
                good = (p.kind == 'return' and len(r) == 1 and isinstance(r[0].data['kwargs'].get('files'), _ExecCall)
                        and r[0].data['kwargs']['files'].recv == 'list' and r[0].data['kwargs']['files'].args[0] is b.fd)
                res.oblige(p, f'{prop}.restore_tail.reports_the_planned_files', z3.BoolVal(bool(good)))
        res.oblige([], f'{prop}.restore_tail.paths_checked', z3.BoolVal(n_bad >= 1 and n_ok >= 1))
    return post


def restore_tail_unit(prop):
    return Unit(f'{prop}.restore_tail', REPO_PY, 'Repository.restore', restore_tail_setup, restore_tail_post(prop),
                stmt=_with_gather, prop=prop)
