"""Contracts for Repository.restore's closures and planning loop
(C01, C04, C06, C09, C15)."""
from __future__ import annotations

import z3

from vf import sym, models, ops
from vf.sym import SV, INT, BOOL, STR, BYTES, Opt, Tup, List, Set, Dict, Ref, Cls
from vf.interp import Model, Raised, Exc, Obj, LoopSpec, IterSpec, Closure
from vf.unit import Unit, Lemma
from vf.ops import CM, MethodModel
from specs import shared, gc
from specs.shared import REPO_PY, UF, H, KDF, DEC, ENC

REF = Tup(STR, INT, INT, INT)          # (file_path, chunk_size, stream_start, start)
PATHT = models.opaque_type('PathObj')
META = models.opaque_type('Meta', pytype='dict')
FUTURE = models.opaque_type('Future')
DIGESTSET = sym.SetC(BYTES)
DIGESTSET.guarded_by = None            # set below per unit
FMETA = Tup(PATHT, Opt(META))


def B(z):
    return UF('B', STR, BYTES)(z)


class Stream(CM):
    """io.BytesIO and its wrappers (TQDM / rate limiter): the payload lives in ghost `content`"""

    def __init__(self, name, inner=None):
        super().__init__(name)
        self.inner = inner

    def root(self):
        s = self
        while s.inner is not None:
            s = s.inner
        return s

    def vf_getattr(self, interp, st, name):
        if name == 'getvalue':
            root = self.root()
            yield st, Model('getvalue', lambda i, s, a, k: iter([(s, s.ghost[f'content:{id(root)}'])]))
        else:
            raise sym.Unsupported(f'stream attribute {name}')


def slot_cm(kind='slot'):
    def on_enter(interp, st, cm):
        st.emit('slot_acquire')
        st.ghost['slots_held'] = st.ghost.get('slots_held', 0) + 1
        yield st, sym.fresh(INT, 'slot')

    def on_exit(interp, st, cm, out):
        st.emit('slot_release')
        st.ghost['slots_held'] = st.ghost.get('slots_held', 0) - 1
        yield st, out

    return CM(kind, on_enter, on_exit)


def download_chunk_setup(b, guarded=False):
    me = shared.repo_self(b)
    b.me = me
    digest = b.sym('digest', BYTES)
    refs = b.ref('refs', sym.ListC(REF))
    b.assume(b.st.heap.read(sym.ListC(REF), 'len', refs.z) >= 0)
    b.bind('loop', Obj('loop'))
    b.sym('download_chunk_size', INT)
    b.bind('glock', models.lock_cm('glock'))
    files_digests = b.ref('files_digests', sym.DictC(STR, Ref(DIGESTSET)))
    files_metadata = b.ref('files_metadata', sym.DictC(STR, FMETA))
    if guarded:
        for c in (DIGESTSET, sym.DictC(STR, Ref(DIGESTSET)), sym.DictC(STR, FMETA)):
            c.guarded_by = 'glock'
    else:
        for c in (DIGESTSET, sym.DictC(STR, Ref(DIGESTSET)), sym.DictC(STR, FMETA)):
            c.guarded_by = None
    RATELIM = models.opaque_type('RateLimiter', attrs={
        'wrap': MethodModel('wrap', lambda i, s, a, k: iter([(s, Stream('limited', inner=a[1]))]))})
    b.sym('rate_limiter', Opt(RATELIM))

    def bytesio(interp, st, args, kwargs):
        s = Stream('bytesio')
        st.ghost[f'content:{id(s)}'] = b''
        yield st, s

    def tqdm_writer(interp, st, args, kwargs):
        yield st, Stream('tqdm', inner=args[0])

    def run_cts(interp, st, args, kwargs):
        func, location, stream = args[0], args[1], args[2]
        fail = st.copy()
        fail.emit('download_failed', location=location)
        yield fail, Raised(Exc('AnyError'))
        st.emit('download_stream', location=location, func=func, slots=st.ghost.get('slots_held', 0))
        # assumed backend interface: download_stream(name, stream) leaves B[name] in the stream
        st.ghost[f'content:{id(stream.root())}'] = SV(BYTES, B(sym.lift(location, STR).z))
        yield st, None

    def submit(interp, st, args, kwargs):
        fn, ref, view = args
        st.emit('submit', fn=fn, ref=ref, view=view)
        yield st, sym.fresh(FUTURE, 'future')

    def as_completed(interp, st, args, kwargs):
        (lst,) = args
        yield st, ops.iterspec(interp, st, lst)

    def future_result(interp, st, args, kwargs):
        fail = st.copy()
        yield fail, Raised(Exc('AnyError'))
        yield st, None

    FUTURE.attrs = {'result': MethodModel('result', future_result)}

    def restore_metadata(interp, st, args, kwargs):
        st.emit('restore_metadata', path=args[0], metadata=args[1])
        yield st, None

    def loc_model(interp, st, args, kwargs):
        yield st, SV(STR, gc.loc(sym.lift(args[0], BYTES).z))

    me._attrs.update({
        '_chunk_digest_to_location': Model('loc', loc_model),
        '_acquire_slot_threadsafe': Model('_acquire_slot_threadsafe', lambda i, s, a, k: iter([(s, slot_cm())])),
        '_maybe_run_coroutine_threadsafe': Model('_maybe_run_coroutine_threadsafe', run_cts),
        'restore_metadata': Model('restore_metadata', restore_metadata),
        'backend': Obj('backend', download_stream=Obj('backend.download_stream')),
    })
    b.bind('io', Obj('io', BytesIO=Model('BytesIO', bytesio)))
    b.bind('utils', Obj('utils', TQDMIOWriter=Model('TQDMIOWriter', tqdm_writer)))
    b.bind('writer', Obj('writer', submit=Model('submit', submit)))
    b.bind('concurrent', Obj('concurrent', futures=Obj('futures', as_completed=Model('as_completed', as_completed))))
    b.bind('_write_chunk_ref', Obj('_write_chunk_ref'))
    b.digest = digest


def download_chunk_loops():
    true_inv = lambda ctx: (ctx.k <= ctx.n) if ctx.n is not None else z3.BoolVal(True)
    return {
        'For#1': LoopSpec(true_inv, modifies=[('heap_at', sym.ListC(FUTURE), 'arr', ['writer_futures']),
                                             ('heap_at', sym.ListC(FUTURE), 'len', ['writer_futures']),
                                             ('heap_at', sym.SetC(STR), 'm', ['referenced_paths'])], name='submit_loop'),
        'For#2': LoopSpec(true_inv, modifies=[], name='wait_loop'),
        'For#3': LoopSpec(true_inv, modifies=[('heap', DIGESTSET, 'm'),
                                             ('heap', sym.DictC(STR, FMETA), 'has'),
                                             ('heap', sym.DictC(STR, FMETA), 'n')],
                          name='finish_loop', types={'restore_path': PATHT, 'metadata': Opt(META)}),
    }


DC_LOCALS = {'writer_futures': List(FUTURE), 'referenced_paths': Set(STR)}


def authentic(view, x, d):
    """Authentic(x, d): x hashes to d, or (encrypted) x came out of a successful AEAD decryption under the
    key derived from d (honest ciphertexts under that key carry a plaintext hashing to d: C14.chunk.body)"""
    Hf = H()
    c = z3.Const('auth_c', z3.StringSort())
    return z3.Or(Hf(x) == d,
                 z3.And(view.encrypted, z3.Exists([c], z3.And(x == DEC()(c, view.subkey(d)),
                                                              c == ENC()(x, view.subkey(d), shared.NONCE_OF()(c))))))


def c04_download_chunk_post(prop):
    def post(res):
        b = res.builder
        d = b.digest.z
        n_submit = 0
        for p in res.all_paths():
            n_submit += len(p.events('submit'))
            view = shared.PropsView(p.st, b.me.props)
            dls = p.events('download_stream')
            for e in dls:
                res.oblige(p.pc_at(e), f'{prop}.chunk.location_from_digest', sym.lift(e.data['location'], STR).z == gc.loc(d))
            for e in p.events('submit'):
                pc = p.pc_at(e)
                v = sym.lift(e.data['view'], BYTES).z
                # C04.chunk.verified_before_write
                res.oblige(pc, f'{prop}.chunk.verified_before_write', authentic(view, v, d))
                # the view is the (decrypted) payload of the object at loc(digest)
                res.oblige(pc, f'{prop}.chunk.view_is_payload', z3.If(
                    view.encrypted, v == DEC()(B(gc.loc(d)), view.subkey(d)), v == B(gc.loc(d))))
            for e in p.events('decrypt_ok') + p.events('decrypt_failed'):
                res.oblige(p.pc_at(e), f'{prop}.chunk.key_bound_to_digest',
                           sym.lift(e.data['key'], BYTES).z == view.subkey(d))
            if p.kind == 'raise' and p.value.cls in ('DecryptionError', 'ReplicatError'):
                # a damaged object ends in an error before anything is handed to a writer
                res.oblige(p, f'{prop}.chunk.no_write_on_corruption[{p.value.cls}]', z3.BoolVal(not p.events('submit')))
            if p.kind in ('return', 'normal'):
                # no_swallow: a normal return means the object was downloaded, verified and every ref submitted
                res.oblige(p, f'{prop}.chunk.return_implies_downloaded', z3.BoolVal(len(dls) == 1))
        res.oblige([], f'{prop}.chunk.submit_sites_checked', z3.BoolVal(n_submit >= 1))
    return post


def download_chunk_unit(prop, post, guarded=False):
    return Unit(f'{prop}.download_chunk', REPO_PY, 'Repository.restore._download_chunk',
                lambda b: download_chunk_setup(b, guarded), post, loops=download_chunk_loops(),
                local_types=DC_LOCALS, prop=prop)
