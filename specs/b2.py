"""Contracts for the B2 adapter: pagination, idempotent delete (C13), rewinds (C12)."""
from __future__ import annotations

import z3

from vf import sym, models, ops, source
from vf.sym import SV, INT, BOOL, STR, BYTES, Opt
from vf.interp import Model, Raised, Exc, Obj, LoopSpec, PyRef, IterSpec
from vf.unit import Unit, Lemma
from vf.ops import CM, MethodModel, Property
from specs import shared
from specs.shared import UF

B2_PY = 'replicat/backends/b2.py'
S = z3.StringVal
STREAM = models.opaque_type('B2Stream')
RESP = models.opaque_type('B2Response')
JSONV = models.opaque_type('B2Json', pytype='dict')
FILEV = models.opaque_type('B2File', pytype='dict')


def env(b):
    me = Obj('self', _auth=Obj('auth', apiUrl=sym.const(STR, 'apiUrl'), downloadUrl=sym.const(STR, 'downloadUrl'),
                               authorizationToken=sym.const(STR, 'authToken'), accountId=sym.const(STR, 'accountId')))
    me._class_source = (B2_PY, 'B2')          # helpers extracted from the adapter's methods are the real methods, inlined
    b.bind('self', me)
    b.me = me
    b.sym('name', STR)
    b.sym('prefix', STR)
    b.sym('length', INT)
    b.sym('chunk_size', INT)

    def get_bucket(interp, st, args, kwargs):
        yield st, Obj('bucket', id=sym.const(STR, 'bucket_id'), name=sym.const(STR, 'bucket_name'))

    me._attrs['_get_bucket'] = Model('_get_bucket', get_bucket)
    me._attrs['_get_upload_url_token'] = Model('_get_upload_url_token', lambda i, s, a, k: iter(
        [(s, (sym.const(STR, 'uploadUrl'), sym.const(STR, 'uploadToken')))]))

    def http(kind):
        def fn(interp, st, args, kwargs):
            bad = st.copy()
            bad.emit('http_failed', verb=kind)
            yield bad, Raised(Exc('HTTPError'))
            # the client's response hook turns 401 / expired tokens into AuthRequired (a ReplicatError, not an
            # httpx error), and reading the payload stream can fail with anything else
            for other in ('AuthRequired', 'OSError'):
                bad = st.copy()
                bad.emit('http_failed', verb=kind)
                yield bad, Raised(Exc(other))
            code = sym.fresh(INT, 'status')
            errjson_ok = sym.fresh(BOOL, 'error_body_is_json')
            err = st.copy()
            err.emit('http_status_error', verb=kind, code=code)
            err.ghost['err_code_field'] = sym.fresh(Opt(STR), 'error_code_field')
            err.ghost['err_json_ok'] = errjson_ok

            def resp_json(i2, s2, a2, k2):
                for s3, ok in i2.branch(s2, s2.ghost['err_json_ok'].z):
                    if ok:
                        yield s3, SV(JSONV, z3.Const('error_json', JSONV.sort()))
                    else:
                        yield s3, Raised(Exc('ValueError'))

            yield err, Raised(Exc('HTTPStatusError', attrs={'response': Obj('resp', status_code=code, json=Model('json', resp_json))}))
            st.emit('http', verb=kind, url=args[0], kwargs=dict(kwargs))
            yield st, sym.fresh(RESP, 'resp')
        return Model(kind, fn)

    me._attrs['_client'] = Obj('client', post=http('post'), get=http('get'), head=http('head'))
    b.bind('httpx', Obj('httpx', HTTPStatusError=shared.ExcClass('HTTPStatusError'), HTTPError=shared.ExcClass('HTTPError'),
                        codes=Obj('codes', NOT_FOUND=404, FORBIDDEN=403, BAD_REQUEST=400, UNAUTHORIZED=401, TOO_MANY_REQUESTS=429)))
    JSONV.attrs = {'get': MethodModel('get', lambda i, s, a, k: iter([(s, s.ghost.get('err_code_field', sym.fresh(Opt(STR), 'code')))]))}
    b.bind('quote', Model('quote', lambda i, s, a, k: iter([(s, SV(STR, UF('urllib_quote', STR, STR)(sym.lift(a[0], STR).z)))])))

    def seek(interp, st, args, kwargs):
        st.emit('stream_seek', pos=args[1])
        yield st, args[1]

    STREAM.attrs = {'seek': MethodModel('seek', seek)}
    b.sym('stream', STREAM)
    b.bind('utils', Obj('utils', aiter_chunks=Model('aiter_chunks', lambda i, s, a, k: (
        s.emit('aiter_chunks', stream=a[0], chunk_size=k.get('chunk_size', a[1] if len(a) > 1 else None)), iter([(s, sym.fresh(models.opaque_type('Chunks'), 'chunks'))]))[1])))


def delete_post(prop):
    def post(res):
        n_ret = 0
        for p in res.paths:
            errs = p.events('http_status_error')
            sig = p.kind + (':' + p.value.cls if p.kind == 'raise' else '')
            if p.kind in ('normal', 'return') and errs:
                n_ret += 1
                code = errs[-1].data['code'].z
                fld = p.st.ghost['err_code_field']
                val = fld.ty.val(fld.z)
                # C13.b2.delete_idempotent: only the two "already gone" 400 answers are swallowed
                res.oblige(p, f'{prop}.b2.delete.swallows_only_already_hidden_or_no_such_file[{sig}]', z3.And(
                    code == 400, z3.Not(fld.ty.is_none(fld.z)), z3.Or(val == S('already_hidden'), val == S('no_such_file'))))
            if p.kind == 'raise' and errs:
                fld = p.st.ghost['err_code_field']
                code = errs[-1].data['code'].z
                gone = z3.And(code == 400, p.st.ghost['err_json_ok'].z, z3.Not(fld.ty.is_none(fld.z)),
                              z3.Or(fld.ty.val(fld.z) == S('already_hidden'), fld.ty.val(fld.z) == S('no_such_file')))
                res.oblige(p, f'{prop}.b2.delete.every_other_error_propagates[{sig}]', z3.Not(gone))
            for e in p.events('http'):
                kw = e.data['kwargs']
                js = res.interp.deref(p.st, ops.resolve(p.st, kw['json']))
                res.oblige(p.pc_at(e), f'{prop}.b2.delete.hides_the_named_file[{sig}]', sym.lift(js['fileName'], STR).z == res.builder.st.lookup('name').z)
        res.oblige([], f'{prop}.b2.delete.swallow_paths_checked', z3.BoolVal(n_ret >= 1))
    return post


def upload_stream_post(prop):
    def post(res):
        n = 0
        for p in res.paths:
            evs = p.st.events
            if p.kind == 'raise' and any(e.kind == 'aiter_chunks' for e in evs):
                n += 1
                lk = [e for e in evs if e.kind == 'stream_seek']
                # C12.b2.upload_stream.rewinds
                res.oblige(p, f'{prop}.b2.upload_stream.rewinds_on_failure[{p.value.cls}]', z3.BoolVal(bool(lk)) if not lk else
                           z3.And(sym.lift(lk[-1].data['pos'], INT).z == 0, z3.BoolVal(evs[-1] is lk[-1])))
            for e in p.events('aiter_chunks'):
                cs = e.data.get('chunk_size')
                # C20: read from the caller's stream in pieces of the chunk size the command chose
                res.oblige(p.pc_at(e), f'{prop}.b2.upload_stream.reads_in_pieces_of_chunk_size', z3.BoolVal(False) if cs is None else z3.And(
                    sym.lift(cs, INT).z == res.builder.st.lookup('chunk_size').z, z3.BoolVal(e.data['stream'] is res.builder.st.lookup('stream'))))
            for e in p.events('http'):
                hd = res.interp.deref(p.st, ops.resolve(p.st, e.data['kwargs']['headers']))
                res.oblige(p.pc_at(e), f'{prop}.b2.upload_stream.declared_length_and_name', z3.And(
                    sym.lift(hd['content-length'], STR).z == UF('str_of_int', INT, STR)(res.builder.st.lookup('length').z),
                    sym.lift(hd['x-bz-file-name'], STR).z == UF('urllib_quote', STR, STR)(res.builder.st.lookup('name').z)))
        res.oblige([], f'{prop}.b2.upload_stream.failure_paths_checked', z3.BoolVal(n >= 4))
    return post


def download_stream_setup(b):
    env(b)
    HDRS = models.opaque_type('B2Headers')
    n_chunks = z3.Int('n_body_chunks')
    b.assume(n_chunks >= 0)
    HDRS.attrs = {'get': MethodModel('get', lambda i, s, a, k: iter([(s, sym.fresh(Opt(STR), 'content_length_header'))]))}

    def aiter_bytes(interp, st, args, kwargs):
        st.emit('aiter_bytes', size=(args[1] if len(args) > 1 else kwargs.get('chunk_size')))
        yield st, IterSpec(n_chunks, lambda k: SV(BYTES, UF('b2_body_chunk', INT, BYTES)(k)))

    def whole(name):
        def m(interp, st, args, kwargs):
            st.emit('whole_body_read', how=name)
            yield st, sym.fresh(BYTES, 'whole_body')
        return MethodModel(name, m)

    RESP.attrs = {'headers': sym.const(HDRS, 'hdrs'), 'aiter_bytes': MethodModel('aiter_bytes', aiter_bytes), 'aread': whole('aread'), 'read': whole('read')}

    def stream_req(interp, st, args, kwargs):
        st.emit('stream_request', method=args[0], url=args[1], kwargs=dict(kwargs))
        for cls in ('HTTPError', 'AuthRequired'):
            bad = st.copy()
            bad.emit('request_failed')
            yield bad, Raised(Exc(cls))
        yield st, CM('streaming', value=sym.fresh(RESP, 'response'))

    b.me._attrs['_client'] = Obj('client', stream=Model('stream', stream_req))

    def truncate(interp, st, args, kwargs):
        bad = st.copy()
        bad.emit('stream_truncate_failed')
        yield bad, Raised(Exc('OSError'))
        st.emit('stream_truncate', size=args[1] if len(args) > 1 else None)
        yield st, None

    def write(interp, st, args, kwargs):
        for cls in ('OSError', 'AuthRequired'):       # the sink fails, or the body iterator does (an expired token mid-body)
            bad = st.copy()
            bad.emit('stream_write_failed')
            yield bad, Raised(Exc(cls))
        st.emit('stream_write', data=args[1])
        yield st, None

    STREAM.attrs = dict(STREAM.attrs, truncate=MethodModel('truncate', truncate), write=MethodModel('write', write))
    b.bind('int', Model('int', lambda i, s, a, k: iter([(s, sym.fresh(INT, 'content_length'))])))


def download_stream_post(prop):
    def post(res):
        b = res.builder
        n_exc = 0
        for p in res.all_paths():
            evs = p.st.events
            kinds = [e.kind for e in evs]
            sig = ','.join(k for k in kinds if not k.startswith('loop')) + '->' + p.kind + (':' + p.value.cls if p.kind == 'raise' else '')
            if p.kind == 'raise' and any(k in ('stream_truncate', 'stream_truncate_failed') for k in kinds):
                n_exc += 1
                lk = [e for e in evs if e.kind.startswith('stream_') and e.kind != 'stream_request']
                # whatever fails once the sink has been touched (sink error, body error, expired token): back to offset 0
                res.oblige(p, f'{prop}.b2.download_stream.rewinds_on_failure[{sig}]', z3.BoolVal(
                    lk[-1].kind == 'stream_seek') if lk[-1].kind != 'stream_seek' else sym.lift(lk[-1].data['pos'], INT).z == 0)
            for e in p.events('aiter_bytes'):
                sz = e.data['size']
                res.oblige(p.pc_at(e), f'{prop}.b2.download_stream.writes_in_pieces_of_chunk_size', z3.BoolVal(False) if sz is None else
                           sym.lift(sz, INT).z == b.st.lookup('chunk_size').z)
            if p.events('whole_body_read'):
                # the sink is written in pieces of the chunk size the CALLER chose (a rate-limited command passes limit/(16*N) so that no
                # single write exceeds a quarter second of the limit): the body is never taken - and written - as a whole
                res.oblige(p, f'{prop}.b2.download_stream.body_is_never_written_as_a_whole[{sig}]', z3.BoolVal(False))
            if p.events('stream_write'):
                res.oblige(p, f'{prop}.b2.download_stream.truncate_before_write[{sig}]', z3.BoolVal(
                    'stream_truncate' in kinds and kinds.index('stream_truncate') < kinds.index('stream_write')))
            for e in p.events('stream_request'):
                hd = res.interp.deref(p.st, ops.resolve(p.st, e.data['kwargs']['headers']))
                me = b.me
                res.oblige(p.pc_at(e), f'{prop}.b2.download_stream.authorised_get_of_the_named_file', z3.And(
                    sym.lift(e.data['method'], STR).z == S('GET'),
                    sym.lift(e.data['url'], STR).z == z3.Concat(me.get('_auth').get('downloadUrl').z, S('/file/'), z3.String('bucket_name'), S('/'), b.st.lookup('name').z),
                    sym.lift(hd['authorization'], STR).z == me.get('_auth').get('authorizationToken').z))
        res.oblige([], f'{prop}.b2.download_stream.failure_paths_checked', z3.BoolVal(n_exc >= 3))
    return post


def list_files_setup(b):
    env(b)
    n_files = z3.Int('n_page_files')
    b.assume(n_files >= 0)

    def list_file_names(interp, st, args, kwargs):
        bad = st.copy()
        yield bad, Raised(Exc('HTTPError'))
        st.emit('list_file_names', kwargs=dict(kwargs))
        page = sym.fresh(INT, 'page')
        r = sym.fresh(RESP, 'resp')
        st.ghost['page_of_resp'] = page
        yield st, r

    b.me._attrs['_list_file_names'] = Model('_list_file_names', list_file_names)
    PAGE = models.opaque_type('B2Page', pytype='dict')

    def page_getitem(interp, st, v, idx):
        if idx == 'files':
            yield st, IterSpec(n_files, lambda k: SV(FILEV, UF('page_file', PAGE, INT, FILEV)(v.z, k)))
        elif idx == 'nextFileName':
            yield st, SV(Opt(STR), UF('next_file_name', PAGE, Opt(STR))(v.z))
        else:
            raise sym.Unsupported(f'page[{idx}]')

    PAGE.getitem = page_getitem
    FILEV.getitem = lambda i, s, v, idx: iter([(s, SV(STR, UF('file_name', FILEV, STR)(v.z)))])
    RESP.attrs = {'json': MethodModel('json', lambda i, s, a, k: iter([(s, sym.fresh(PAGE, 'decoded'))]))}
    b.PAGE = PAGE


def list_files_post(prop):
    def post(res):
        b = res.builder
        PAGE = b.PAGE
        n_req = n_y = 0
        for p in res.body_paths('While#1'):
            st = p.st
            start = st.ghost['$start_While#1']
            for e in p.events('list_file_names'):
                n_req += 1
                kw = e.data['kwargs']
                s0 = start['start_file_name']
                # C13.b2.list_complete: each page is requested from the previous page's nextFileName, same prefix
                res.oblige(p.pc_at(e), f'{prop}.b2.list_files.page_requested_from_current_cursor', z3.And(
                    sym.lift(kw['prefix'], STR).z == b.st.lookup('prefix').z,
                    sym.lift(kw['start_file_name'], Opt(STR)).z == sym.lift(s0, Opt(STR)).z if s0 is not None and kw['start_file_name'] is not None
                    else z3.BoolVal(kw['start_file_name'] is s0)))
            if st.has('decoded'):
                dec = st.lookup('decoded')
                nxt = UF('next_file_name', PAGE, Opt(STR))(dec.z)
                if p.kind == 'break':
                    res.oblige(p, f'{prop}.b2.list_files.stops_only_when_no_next_file', Opt(STR).is_none(nxt))
                elif p.kind in ('normal', 'continue'):
                    res.oblige(p, f'{prop}.b2.list_files.cursor_advances_to_next_file_name', z3.And(
                        z3.Not(Opt(STR).is_none(nxt)), sym.lift(st.lookup('start_file_name'), Opt(STR)).z == nxt))
        for p in res.body_paths('For#1'):
            for y in p.events('yield'):
                n_y += 1
                f = p.st.lookup('file')
                res.oblige(p.pc_at(y), f'{prop}.b2.list_files.yields_each_file_name', sym.lift(y.data['value'], STR).z == UF('file_name', FILEV, STR)(f.z))
        res.oblige([], f'{prop}.b2.list_files.sites_checked', z3.BoolVal(n_req >= 1 and n_y >= 1))
    return post


def units(prop):
    t = lambda ctx: z3.BoolVal(True)
    return [
        Unit(f'{prop}.b2.delete', B2_PY, 'B2.delete', env, delete_post(prop), prop=prop),
        Unit(f'{prop}.b2.upload_stream', B2_PY, 'B2.upload_stream', env, upload_stream_post(prop), prop=prop),
        Unit(f'{prop}.b2.download_stream', B2_PY, 'B2.download_stream', download_stream_setup, download_stream_post(prop),
             loops={'AsyncFor#1': LoopSpec(t, modifies=[], name='AsyncFor#1')}, prop=prop),
        Unit(f'{prop}.b2.list_files', B2_PY, 'B2.list_files', list_files_setup, list_files_post(prop),
             loops={'While#1': LoopSpec(t, modifies=['start_file_name'], name='While#1', types={'start_file_name': Opt(STR)}),
                    'For#1': LoopSpec(t, modifies=[], name='For#1')},
             local_types={'start_file_name': Opt(STR)}, prop=prop),
    ]


# ------------------------------------------------------------------ _get_upload_url_token: a FRESH upload URL for every attempt
def upload_url_setup(b):
    env(b)
    me = b.me
    del me._attrs['_get_upload_url_token']
    me._lenient = True          # attributes a change starts to keep on the instance hold unknown state
    b.url, b.token = sym.const(STR, 'fresh_uploadUrl'), sym.const(STR, 'fresh_uploadToken')

    def resp_json(interp, st, args, kwargs):
        st.emit('upload_url_decoded')
        yield st, st.new_py('dict', {'uploadUrl': b.url, 'authorizationToken': b.token, 'bucketId': sym.const(STR, 'bucket_id')})

    RESP.attrs = {'json': MethodModel('json', resp_json)}


def upload_url_post(prop):
    def post(res):
        b = res.builder
        for p in res.paths:
            if p.kind != 'return':
                continue                      # failures propagate to the retry decorators (C12.retry units)
            posts = [e for e in p.events('http') if e.data['verb'] == 'post']
            ok = len(posts) == 1 and isinstance(p.value, tuple) and len(p.value) == 2
            # B2: an upload URL belongs to one storage pod; after a failed upload a NEW url must be requested.  Every call (= every
            # attempt of upload / upload_stream) therefore asks b2_get_upload_url and returns the pair of THAT response
            res.oblige(p, f'{prop}.b2.upload_url.requested_anew_by_every_call', z3.BoolVal(bool(ok)) if not ok else z3.And(
                sym.lift(posts[0].data['url'], STR).z == z3.Concat(b.me.get('_auth').get('apiUrl').z, z3.StringVal('/b2api/v2/b2_get_upload_url')),
                sym.lift(p.value[0], STR).z == b.url.z, sym.lift(p.value[1], STR).z == b.token.z))
    return post


def upload_url_unit(prop):
    return Unit(f'{prop}.b2.get_upload_url_token', B2_PY, 'B2._get_upload_url_token', upload_url_setup, upload_url_post(prop), prop=prop)
